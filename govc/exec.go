package main

// Symbolic execution of an SSA function: loops are cut at invariants, every block gets a
// reachability predicate, states are merged at joins, obligations are collected in Gen.

import (
	"strconv"
	"fmt"
	"go/token"
	"go/types"
	"sort"
	"strings"

	"golang.org/x/tools/go/ssa"
)

type BInfo struct {
	R    string // reachability of the block entry
	in   *State
	out  *State
	edge []string // condition of each successor edge (conjunction with R)
	done bool
}

type retRec struct {
	cond string
	st   *State
	vals []T
}

type deferRec struct {
	guard string
	call  *ssa.Defer
	args  []T   // evaluated arguments (receiver first for invoke)
	fnv   T     // function value for dynamic calls
}

type loopInfo struct {
	header   *ssa.BasicBlock
	body     map[*ssa.BasicBlock]bool
	backs    []*ssa.BasicBlock // sources of back edges
	ordinal  int
	lc       *LoopContract
	phiFresh map[*ssa.Phi]T
	entrySt  *State
	fromTop  bool // invariant supplied by the contract of the function under verification
}

type modEntry struct {
	arr   string
	ref   string // "" = every object (whole array)
	text  string
}

type Frame struct {
	g      *Gen
	fn     *ssa.Function
	parent *Frame
	top    *Frame
	depth  int
	tag    string

	vals     map[ssa.Value]T
	locs     map[ssa.Value]*Loc
	tuples   map[ssa.Value][]T
	closures map[ssa.Value]*closureVal
	binfo    map[*ssa.BasicBlock]*BInfo
	loops    map[*ssa.BasicBlock]*loopInfo
	inLoop   map[*ssa.BasicBlock][]*loopInfo
	order    []*ssa.BasicBlock

	entry    *State // function-entry state (old)
	fc       *FuncContract
	specMode bool // no obligations are generated (dry runs, spec inlining)
	rets     []retRec
	defers   []deferRec
	mods     []modEntry
	hasMod   bool
	lets     map[string]T
	params   map[string]T
	curPos   token.Pos
	rangeIt  map[ssa.Value]*mapRange
	staticFns    map[ssa.Value]*ssa.Function
	// paramFns: function-typed parameters of the function under verification (and the free
	// variables / callee parameters they flow into) -> contract key "pkg::Func#param" (paramspec)
	paramFns map[ssa.Value]string
	// cellParamFns (top frame only): local cells known to hold such a parameter (location -> key)
	cellParamFns map[string]string
	cellClosures map[string]*closureVal

	// position of the instruction being executed (for spec name resolution in inlined callees)
	curBlock *ssa.BasicBlock
	curIdx   int
	// inlined frames: which inline-loop invariants of the top contract were used
	usedInlineLoops map[string]bool
	// an inlined callee with loops was executed: this frame's exit condition is stronger than
	// its entry condition
	exitStrengthened bool
}

type closureVal struct {
	fn       *ssa.Function
	bindings []ssa.Value
	frame    *Frame // frame in which the bindings are evaluated
}

var frameCounter int

func (g *Gen) newFrame(fn *ssa.Function, parent *Frame) *Frame {
	frameCounter++
	f := &Frame{g: g, fn: fn, parent: parent, paramFns: map[ssa.Value]string{}, cellParamFns: map[string]string{}, vals: map[ssa.Value]T{}, locs: map[ssa.Value]*Loc{},
		tuples: map[ssa.Value][]T{}, closures: map[ssa.Value]*closureVal{}, binfo: map[*ssa.BasicBlock]*BInfo{},
		lets: map[string]T{}, params: map[string]T{}, rangeIt: map[ssa.Value]*mapRange{},
		staticFns: map[ssa.Value]*ssa.Function{}, cellClosures: map[string]*closureVal{}}
	f.tag = fmt.Sprintf("%s~%d", fn.Name(), frameCounter)
	if parent != nil {
		f.top = parent.top
		f.depth = parent.depth + 1
		f.specMode = parent.specMode
		f.cellClosures = parent.cellClosures
	} else {
		f.top = f
	}
	f.fc = g.cs.Funcs[contractKeyOf(fn)]
	f.analyzeLoops()
	return f
}

// matchesCallee: name is a suffix of the callee's display name or of its closure alias.
func matchesCallee(fn *ssa.Function, name string) bool {
	if strings.HasSuffix(fnDisplay(fn), name) {
		return true
	}
	if a := closureAlias(fn); a != "" {
		a = strings.TrimPrefix(a, modulePath)
		a = strings.TrimPrefix(a, "pkg/")
		a = strings.Replace(a, "::", ".", 1)
		return strings.HasSuffix(a, name)
	}
	return false
}

func contractKeyOf(fn *ssa.Function) string {
	pkg := fn.Pkg
	p := fn
	for pkg == nil && p.Parent() != nil {
		p = p.Parent()
		pkg = p.Pkg
	}
	if pkg == nil {
		if fn.Object() != nil && fn.Object().Pkg() != nil {
			return fn.Object().Pkg().Path() + "::" + fn.RelString(fn.Object().Pkg())
		}
		return "?::" + fn.String()
	}
	return pkg.Pkg.Path() + "::" + fn.RelString(pkg.Pkg)
}

func fnDisplay(fn *ssa.Function) string {
	k := contractKeyOf(fn)
	k = strings.TrimPrefix(k, modulePath)
	k = strings.TrimPrefix(k, "pkg/")
	return strings.Replace(k, "::", ".", 1)
}

// ---------------------------------------------------------------- loops / ordering

func (f *Frame) analyzeLoops() {
	fn := f.fn
	f.loops = map[*ssa.BasicBlock]*loopInfo{}
	f.inLoop = map[*ssa.BasicBlock][]*loopInfo{}
	if len(fn.Blocks) == 0 {
		return
	}
	for _, b := range fn.Blocks {
		for _, s := range b.Succs {
			if s.Dominates(b) { // back edge b -> s
				li := f.loops[s]
				if li == nil {
					li = &loopInfo{header: s, body: map[*ssa.BasicBlock]bool{s: true}}
					f.loops[s] = li
				}
				li.backs = append(li.backs, b)
				// natural loop
				stack := []*ssa.BasicBlock{b}
				for len(stack) > 0 {
					x := stack[len(stack)-1]
					stack = stack[:len(stack)-1]
					if li.body[x] {
						continue
					}
					li.body[x] = true
					for _, p := range x.Preds {
						stack = append(stack, p)
					}
				}
			}
		}
	}
	var hs []*ssa.BasicBlock
	for h := range f.loops {
		hs = append(hs, h)
	}
	sort.Slice(hs, func(i, j int) bool { return hs[i].Index < hs[j].Index })
	if f.fc != nil && !f.specMode {
		for k := range f.fc.Loops {
			if k > len(hs) {
				f.g.degrade("loop %d of the contract of %s does not exist any more (the function has %d loops)", k, fnDisplay(f.fn), len(hs))
			}
		}
	}
	for i, h := range hs {
		li := f.loops[h]
		li.ordinal = i + 1
		if f.fc != nil {
			li.lc = f.fc.Loops[i+1]
		}
		if f != f.top && f.top.fc != nil && f.top.fc.InlineLoops != nil {
			// invariant supplied by the function under verification for a loop of an inlined callee
			for key, lc := range f.top.fc.InlineLoops {
				j := strings.LastIndex(key, "#")
				if key[j+1:] != strconv.Itoa(i+1) || !matchesCallee(f.fn, key[:j]) {
					continue
				}
				li.lc = lc
				li.fromTop = true
				if f.top.usedInlineLoops == nil {
					f.top.usedInlineLoops = map[string]bool{}
				}
				f.top.usedInlineLoops[key] = true
			}
		}
		for b := range li.body {
			f.inLoop[b] = append(f.inLoop[b], li)
		}
	}
	// topological order ignoring back edges (reverse post-order of a DFS)
	seen := map[*ssa.BasicBlock]bool{}
	var post []*ssa.BasicBlock
	var dfs func(b *ssa.BasicBlock)
	dfs = func(b *ssa.BasicBlock) {
		seen[b] = true
		for _, s := range b.Succs {
			if s.Dominates(b) {
				continue
			}
			if !seen[s] {
				dfs(s)
			}
		}
		post = append(post, b)
	}
	dfs(fn.Blocks[0])
	for i := len(post) - 1; i >= 0; i-- {
		f.order = append(f.order, post[i])
	}
}

func isBackEdge(from, to *ssa.BasicBlock) bool { return to.Dominates(from) }

// loopLabel names a loop in obligation names: loops of inlined callees carry the callee's name.
func (f *Frame) loopLabel(li *loopInfo) string {
	if f != f.top {
		n := fnDisplay(f.fn)
		if i := strings.LastIndex(n, "."); i >= 0 {
			n = n[i+1:]
		}
		return fmt.Sprintf("inl-%s-loop%d", n, li.ordinal)
	}
	return fmt.Sprintf("loop%d", li.ordinal)
}

// ---------------------------------------------------------------- values

func (f *Frame) val(v ssa.Value) T {
	g := f.g
	if t, ok := f.vals[v]; ok {
		return t
	}
	switch x := v.(type) {
	case *ssa.Const:
		if x.Value == nil {
			return g.zero(x.Type())
		}
		return g.constTerm(x.Value, x.Type())
	case *ssa.Function:
		name := quote("fn:" + fnDisplay(x))
		g.declConst(name, "Int")
		return mk(name, "Int", x.Type())
	case *ssa.Global:
		// address of a global used as a value
		name := quote("addr:G:" + shortPkg(x.Pkg.Pkg) + "." + x.Name())
		g.declConst(name, "Int")
		return mk(name, "Int", x.Type())
	case *ssa.Builtin:
		return mk("0", "Int", x.Type())
	}
	if l, ok := f.locs[v]; ok {
		// an interior pointer used as a value: opaque reference
		name := g.freshConst("iptr", "Int")
		g.note("interior pointer %s used as a value in %s: modelled as an opaque reference", l.String(), fnDisplay(f.fn))
		t := mk(name, "Int", v.Type())
		f.vals[v] = t
		return t
	}
	// value of an enclosing frame (closure inlined with direct access)? not expected
	name := g.freshConst("undef:"+v.Name(), g.sortOf(v.Type()))
	g.note("value %s of %s has no definition on this path (havoc)", v.Name(), fnDisplay(f.fn))
	t := mk(name, g.sortOf(v.Type()), v.Type())
	f.vals[v] = t
	return t
}

// addrLoc returns the location designated by the address value v (nil if v points to a struct
// object as a whole).
func (f *Frame) addrLoc(v ssa.Value) *Loc {
	if l, ok := f.locs[v]; ok {
		return l
	}
	if gl, ok := v.(*ssa.Global); ok {
		return f.g.globalLoc(shortPkg(gl.Pkg.Pkg)+"."+gl.Name(), derefType(gl.Type()))
	}
	pt := derefType(v.Type())
	if pt == nil {
		return nil
	}
	if isStruct(pt) {
		return nil
	}
	return f.g.cellLoc(f.val(v).S, pt)
}

func (f *Frame) havocVal(v ssa.Value, why string) T {
	name := f.g.freshConst("hv:"+v.Name(), f.g.sortOf(v.Type()))
	t := mk(name, f.g.sortOf(v.Type()), v.Type())
	return t
}

func (f *Frame) setVal(v ssa.Value, t T) {
	if t.GT == nil || !types.Identical(t.GT, v.Type()) {
		t.GT = v.Type()
	}
	f.vals[v] = t
}

// ---------------------------------------------------------------- obligations

func (f *Frame) oblName(kind, label string) string {
	n := fnDisplay(f.top.fn) + "/" + kind
	if label != "" {
		n += "/" + label
	}
	return n
}

func (f *Frame) addObl(kind, label, hyp, goal, text string) {
	if f.specMode {
		return
	}
	if goal == "true" {
		return
	}
	// a conjunction is split into one obligation per conjunct (smaller queries, sharper reports)
	if strings.HasPrefix(goal, "(and ") && kind != "cover" {
		parts := splitTop(goal[5 : len(goal)-1])
		if len(parts) > 1 && len(parts) <= 12 {
			for i, p := range parts {
				f.addObl(kind, fmt.Sprintf("%s.%d", label, i+1), hyp, p, text)
			}
			return
		}
	}
	f.g.addObl(&Obligation{Name: f.oblName(kind, label), Kind: kind, Fn: fnDisplay(f.top.fn), Label: label, Hyp: hyp, Goal: goal,
		Pos: f.g.fset.Position(f.curPos), Text: text})
}

func (f *Frame) checks(kind string) bool {
	fc := f.top.fc
	if fc == nil {
		return false
	}
	if fc.Checks["none"] {
		return false
	}
	if fc.Checks[kind] || fc.Checks["all"] {
		return true
	}
	switch kind {
	case "index", "assert", "assert-ext", "mapnil":
		return !fc.Checks["nosafety"]
	}
	return false
}

func (f *Frame) safety(kind string, bi *BInfo, cond string, what string) {
	if !f.checks(kind) {
		return
	}
	site := fnDisplay(f.fn)
	if f != f.top {
		site = "in:" + site
	} else {
		site = ""
	}
	f.addObl("safety", kind+ifs(site != "", "@"+site, ""), bi.R, cond, what)
}

func ifs(c bool, a, b string) string {
	if c {
		return a
	}
	return b
}

// ---------------------------------------------------------------- spec environments

func (f *Frame) specEnv(cur *State, at *ssa.BasicBlock, atIdx int, phiSubst map[*ssa.Phi]T, li *loopInfo) *SpecEnv {
	e := &SpecEnv{g: f.g, cur: cur, old: f.top.entryOr(f), vars: map[string]T{}, fr: f}
	if cur != nil && cur.cs != nil && f.top.fc != nil && f.top.fc.Opts["old"] == "cs" {
		// old() is the state found when the lock was acquired on the path that leads here
		e.old = cur.cs
	}
	if f.fn.Pkg != nil {
		e.pkg = f.fn.Pkg.Pkg
	} else if p := f.fn.Parent(); p != nil {
		for p.Pkg == nil && p.Parent() != nil {
			p = p.Parent()
		}
		if p.Pkg != nil {
			e.pkg = p.Pkg.Pkg
		}
	}
	if li != nil && li.fromTop {
		// invariant written in the contract of the function under verification
		tf := f.top.fn
		for tf.Pkg == nil && tf.Parent() != nil {
			tf = tf.Parent()
		}
		if tf.Pkg != nil {
			e.pkg = tf.Pkg.Pkg
		}
	}
	for k, v := range f.params {
		e.vars[k] = v
	}
	for k, v := range f.lets {
		e.vars[k] = v
	}
	e.locals = func(name string, env *SpecEnv) (T, bool) {
		if v, ok := f.resolveLocal(name, at, atIdx, phiSubst, env); ok {
			return v, true
		}
		// inlined callee: the names of the calling frames at their call instruction
		for c, p := f, f.parent; p != nil; c, p = p, p.parent {
			_ = c
			if v, ok := p.params[name]; ok {
				return v, true
			}
			if v, ok := p.lets[name]; ok {
				return v, true
			}
			if p.curBlock != nil {
				if v, ok := p.resolveLocal(name, p.curBlock, p.curIdx, nil, env); ok {
					return v, true
				}
			}
		}
		return T{}, false
	}
	if li == nil {
		// outside loop invariants (post-conditions): the function's only range-over-map loop
		e.mapIter = func() *mapRange {
			var only *mapRange
			n := 0
			for _, mr := range f.rangeIt {
				if mr != nil && !mr.str {
					only = mr
					n++
				}
			}
			if n == 1 {
				return only
			}
			return nil
		}
	}
	if li != nil {
		e.loopEntry = li.entrySt
		e.mapIter = func() *mapRange {
			for b := range li.body {
				for _, ins := range b.Instrs {
					if nx, ok := ins.(*ssa.Next); ok && b == li.header {
						return f.rangeIt[nx.Iter]
					}
				}
			}
			return nil
		}
		e.iter = func() (T, bool) {
			for _, ins := range li.header.Instrs {
				if p, ok := ins.(*ssa.Phi); ok && p.Comment == "rangeindex" {
					v := f.phiVal(p, phiSubst)
					return intT(sAdd(v.S, "1")), true
				}
			}
			return T{}, false
		}
	}
	return e
}

func (f *Frame) entryOr(g *Frame) *State {
	if f.entry != nil {
		return f.entry
	}
	return g.entry
}

func (f *Frame) phiVal(p *ssa.Phi, subst map[*ssa.Phi]T) T {
	if subst != nil {
		if v, ok := subst[p]; ok {
			return v
		}
	}
	return f.val(p)
}

// resolveLocal finds the SSA value that holds source variable `name` at the given point.
func (f *Frame) resolveLocal(name string, at *ssa.BasicBlock, atIdx int, phiSubst map[*ssa.Phi]T, env *SpecEnv) (T, bool) {
	type cand struct {
		b   *ssa.BasicBlock
		idx int
		v   ssa.Value
		isAddr bool
		phi *ssa.Phi
	}
	var best *cand
	// Every value that some DebugRef (anywhere in the function) or phi comment associates with
	// the variable is a candidate; the value of the variable at `at` is the candidate whose
	// definition dominates `at` and is the latest in dominance order. (go/ssa attaches the
	// DebugRef of a `:=` definition to the zero value, so definitions alone are not reliable.)
	defPos := func(v ssa.Value) (*ssa.BasicBlock, int, bool) {
		ins, ok := v.(ssa.Instruction)
		if !ok {
			return nil, -1, true // parameters, constants, globals: available everywhere
		}
		b := ins.Block()
		if b == nil {
			return nil, -1, true
		}
		for i, x := range b.Instrs {
			if x == ins {
				return b, i, true
			}
		}
		return b, 0, true
	}
	consider := func(v ssa.Value, isAddr bool, phi *ssa.Phi) {
		if at == nil {
			return
		}
		b, idx, _ := defPos(v)
		if b != nil {
			if !(b == at || b.Dominates(at)) {
				return
			}
			if b == at && phi == nil && idx >= atIdx {
				return
			}
		}
		c := &cand{b: b, idx: idx, v: v, isAddr: isAddr, phi: phi}
		if _, isConst := v.(*ssa.Const); isConst {
			c.idx = -2
		}
		if best == nil {
			best = c
			return
		}
		switch {
		case best.b == nil && c.b == nil:
			if c.idx > best.idx {
				best = c
			}
		case best.b == nil:
			best = c
		case c.b == nil:
		case c.b == best.b:
			if c.idx > best.idx {
				best = c
			}
		case best.b.Dominates(c.b):
			best = c
		}
	}
	// a variable captured by a closure lives in a heap cell (Alloc with the variable's name): its
	// current content is the value, whatever the DebugRefs of its initialisation say
	if at != nil {
		var cell *ssa.Alloc
		n := 0
		for _, b := range f.fn.Blocks {
			for _, ins := range b.Instrs {
				if a, ok := ins.(*ssa.Alloc); ok && a.Comment == name && (b == at || b.Dominates(at)) {
					if _, have := f.vals[a]; have {
						cell = a
						n++
					}
				}
			}
		}
		if n == 1 {
			if l := f.addrLoc(cell); l != nil {
				return f.g.load(env.cur, l), true
			}
			return f.g.loadStruct(env.cur, f.val(cell).S, derefType(cell.Type())), true
		}
	}
	for _, b := range f.fn.Blocks {
		for _, ins := range b.Instrs {
			switch x := ins.(type) {
			case *ssa.DebugRef:
				if o := x.Object(); o != nil && o.Name() == name {
					if _, isVar := o.(*types.Var); !isVar {
						continue
					}
					consider(x.X, x.IsAddr, nil)
				}
			case *ssa.Phi:
				if x.Comment == name {
					consider(x, false, x)
				}
			}
		}
	}
	if best != nil {
		if best.phi != nil {
			return f.phiVal(best.phi, phiSubst), true
		}
		if a, ok := best.v.(*ssa.Alloc); ok && a.Comment == name {
			// the storage of an escaping local variable (captured by a closure): its content
			best.isAddr = true
		}
		if best.isAddr {
			l := f.addrLoc(best.v)
			if l == nil {
				pt := derefType(best.v.Type())
				return f.g.loadStruct(env.cur, f.val(best.v).S, pt), true
			}
			return f.g.load(env.cur, l), true
		}
		if p, ok := best.v.(*ssa.Phi); ok {
			return f.phiVal(p, phiSubst), true
		}
		return f.val(best.v), true
	}
	for _, p := range f.fn.Params {
		if p.Name() == name {
			return f.val(p), true
		}
	}
	for _, fv := range f.fn.FreeVars {
		if fv.Name() == name {
			// free variables are pointers to the captured variable
			l := f.addrLoc(fv)
			if l == nil {
				pt := derefType(fv.Type())
				return f.g.loadStruct(env.cur, f.val(fv).S, pt), true
			}
			return f.g.load(env.cur, l), true
		}
	}
	return T{}, false
}

// ---------------------------------------------------------------- state merging

type inEdge struct {
	cond string
	st   *State
}

func (f *Frame) merge(edges []inEdge, label string) (*State, string) {
	g := f.g
	if len(edges) == 0 {
		return nil, "false"
	}
	var conds []string
	for _, e := range edges {
		conds = append(conds, e.cond)
	}
	r := sOr(conds...)
	if len(edges) == 1 {
		return edges[0].st.clone(), r
	}
	R := g.freshConst("R:"+label, "Bool")
	g.assert(sEq(R, r))
	st := &State{heap: map[string]string{}, sorts: edges[0].st.sorts, held: map[string]bool{}}
	names := map[string]bool{}
	sameEpoch := true
	for _, e := range edges {
		for k := range e.st.heap {
			names[k] = true
		}
		if e.st.epoch != edges[0].st.epoch {
			sameEpoch = false
		}
	}
	if !sameEpoch {
		for k := range g.arrReg {
			names[k] = true
		}
		g.epochN++
		st.epoch = g.epochN
	} else {
		st.epoch = edges[0].st.epoch
	}
	var ks []string
	for k := range names {
		ks = append(ks, k)
	}
	sort.Strings(ks)
	for _, k := range ks {
		es := g.arrReg[k]
		first := g.arr(edges[0].st, k, es)
		same := true
		for _, e := range edges[1:] {
			if g.arr(e.st, k, es) != first {
				same = false
				break
			}
		}
		if same {
			st.heap[k] = first
			continue
		}
		n := g.freshConst(k+"@"+label, "(Array Int "+es+")")
		for _, e := range edges {
			g.assert(sImp(e.cond, sEq(n, g.arr(e.st, k, es))))
		}
		st.heap[k] = n
	}
	// allocation counter
	nx := edges[0].st.next
	same := true
	for _, e := range edges[1:] {
		if e.st.next != nx {
			same = false
		}
	}
	if same {
		st.next = nx
	} else {
		n := g.freshConst("next@"+label, "Int")
		for _, e := range edges {
			g.assert(sImp(e.cond, sEq(n, e.st.next)))
		}
		st.next = n
	}
	// `old=cs` snapshots: the same on every edge, or merged like the states themselves
	{
		sameCS := true
		for _, e := range edges[1:] {
			if e.st.cs != edges[0].st.cs {
				sameCS = false
			}
		}
		if sameCS {
			st.cs = edges[0].st.cs
		} else if f.top.entry != nil {
			var ce []inEdge
			for _, e := range edges {
				c := e.st.cs
				if c == nil {
					c = f.top.entry
				}
				cc := c.clone()
				cc.cs = nil
				ce = append(ce, inEdge{e.cond, cc})
			}
			m, _ := f.merge(ce, label+":cs")
			m.cs = nil
			m.next = f.top.entry.next
			st.cs = m
		}
	}
	// lock set: intersection
	for k := range edges[0].st.held {
		all := true
		for _, e := range edges[1:] {
			if !e.st.held[k] {
				all = false
			}
		}
		if all {
			st.held[k] = true
		}
	}
	return st, R
}

func (f *Frame) mergeVals(edges []inEdge, vals [][]T, label string) []T {
	if len(vals) == 0 || len(vals[0]) == 0 {
		return nil
	}
	n := len(vals[0])
	out := make([]T, n)
	for i := 0; i < n; i++ {
		same := true
		for _, v := range vals[1:] {
			if v[i].S != vals[0][i].S {
				same = false
			}
		}
		if same {
			out[i] = vals[0][i]
			continue
		}
		c := f.g.freshConst("ret:"+label, vals[0][i].Sort)
		for k, e := range edges {
			f.g.assert(sImp(e.cond, sEq(c, vals[k][i].S)))
		}
		out[i] = mk(c, vals[0][i].Sort, vals[0][i].GT)
	}
	return out
}

// ---------------------------------------------------------------- running a function body

// run executes the body from the given state; returns the merged exit state, the result values
// and the reachability of the exit.
func (f *Frame) run(st *State, reach string) (*State, []T, string) {
	fn := f.fn
	if len(fn.Blocks) == 0 {
		return st, nil, reach
	}
	if f.entry == nil {
		f.entry = st.clone()
	}
	for _, b := range f.order {
		f.execBlock(b, st, reach)
	}
	if len(f.rets) == 0 {
		return st.clone(), nil, "false"
	}
	var edges []inEdge
	var vals [][]T
	for _, r := range f.rets {
		edges = append(edges, inEdge{r.cond, r.st})
		vals = append(vals, r.vals)
	}
	out, R := f.merge(edges, f.tag+":exit")
	return out, f.mergeVals(edges, vals, f.tag), R
}

func (f *Frame) blockLabel(b *ssa.BasicBlock) string { return fmt.Sprintf("%s:b%d", f.tag, b.Index) }

func (f *Frame) inEdges(b *ssa.BasicBlock, includeBack bool) []inEdge {
	var edges []inEdge
	for _, p := range b.Preds {
		if isBackEdge(p, b) && !includeBack {
			continue
		}
		pi := f.binfo[p]
		if pi == nil || !pi.done {
			continue
		}
		for si, s := range p.Succs {
			if s == b {
				edges = append(edges, inEdge{pi.edge[si], pi.out})
			}
		}
	}
	return edges
}

func (f *Frame) execBlock(b *ssa.BasicBlock, entrySt *State, entryReach string) {
	g := f.g
	if f == f.top && !f.specMode {
		g.curTopBlock = b
	}
	bi := &BInfo{}
	f.binfo[b] = bi
	var edges []inEdge
	var preds []*ssa.BasicBlock
	if b.Index == 0 {
		bi.in = entrySt.clone()
		bi.R = entryReach
	} else {
		for _, p := range b.Preds {
			if isBackEdge(p, b) {
				continue
			}
			pi := f.binfo[p]
			if pi == nil || !pi.done {
				continue
			}
			for si, s := range p.Succs {
				if s == b {
					edges = append(edges, inEdge{pi.edge[si], pi.out})
					preds = append(preds, p)
				}
			}
		}
		if len(edges) == 0 {
			// unreachable (e.g. only reachable through a panic/recover path)
			bi.in = entrySt.clone()
			bi.R = "false"
		} else {
			bi.in, bi.R = f.merge(edges, f.blockLabel(b))
		}
	}
	st := bi.in
	// phis: value on entry
	phiEntry := map[*ssa.Phi]T{}
	for _, ins := range b.Instrs {
		p, ok := ins.(*ssa.Phi)
		if !ok {
			break
		}
		var v T
		if len(edges) == 0 {
			v = g.zero(p.Type())
		} else {
			var ops []T
			for _, pr := range preds {
				for k, bp := range b.Preds {
					if bp == pr {
						ops = append(ops, f.val(p.Edges[k]))
						break
					}
				}
			}
			// note: a predecessor occurring twice (both branches of an If) has identical operands
			same := true
			for _, o := range ops[1:] {
				if o.S != ops[0].S {
					same = false
				}
			}
			if same {
				v = ops[0]
			} else {
				c := g.freshConst("phi:"+f.tag+":"+p.Name(), g.sortOf(p.Type()))
				for k, e := range edges {
					g.assert(sImp(e.cond, sEq(c, ops[k].S)))
				}
				v = mk(c, g.sortOf(p.Type()), p.Type())
			}
		}
		v.GT = p.Type()
		phiEntry[p] = v
	}
	if li := f.loops[b]; li != nil {
		f.loopHeader(b, bi, li, phiEntry)
		st = bi.in
	} else {
		for p, v := range phiEntry {
			f.vals[p] = v
		}
	}
	bi.out = st
	for idx, ins := range b.Instrs {
		if _, ok := ins.(*ssa.Phi); ok {
			continue
		}
		if p := ins.Pos(); p.IsValid() {
			f.curPos = p
		}
		f.curBlock, f.curIdx = b, idx
		if f == f.top && !f.specMode {
			g.curTopBlock = b
		}
		f.instr(b, bi, idx, ins)
	}
	bi.done = true
}

// ---------------------------------------------------------------- loops

func (f *Frame) loopHeader(b *ssa.BasicBlock, bi *BInfo, li *loopInfo, phiEntry map[*ssa.Phi]T) {
	g := f.g
	entry := bi.in
	li.entrySt = entry.clone()
	if li.lc == nil && !f.specMode {
		g.note("loop %d of %s has no invariant: everything it may change is havocked", li.ordinal, fnDisplay(f.fn))
		g.degrade("loop %d of %s has no invariant in the contract", li.ordinal, fnDisplay(f.fn))
	}
	// 0. ghost snapshots taken on entry (before the invariants, which may mention them)
	if li.lc != nil && len(li.lc.GhostSets) > 0 {
		env := f.specEnv(entry, b, 0, phiEntry, li)
		f.applyGhostSets(&FuncContract{GhostSets: li.lc.GhostSets}, env, entry)
		li.entrySt = entry.clone()
	}
	// 1. invariant on entry
	if li.lc != nil {
		env := f.specEnv(entry, b, 0, phiEntry, li)
		for _, c := range li.lc.Invariants {
			if strings.HasPrefix(c.Label, "assumed:") {
				// an environment assumption (typically: no aliasing with storage owned by others)
				// that holds throughout the loop; listed in the evidence, never checked
				if v, err := env.evalBool(c.Expr); err == nil {
					g.assumeNote("assumed loop invariant of %s [%s]: %s", fnDisplay(f.top.fn), c.Label, c.Text)
					g.assert(sImp(bi.R, v.S))
				}
			}
		}
		for i, c := range li.lc.Invariants {
			if strings.HasPrefix(c.Label, "assumed:") {
				continue
			}
			v, err := env.evalBool(c.Expr)
			if err != nil {
				g.resolutionFailure(f, fmt.Sprintf("loop %d invariant %d: %v", li.ordinal, i+1, err))
				continue
			}
			f.addObl("inv-entry", fmt.Sprintf("%s/%s", f.loopLabel(li), clauseLabel(c, i)), bi.R, v.S, c.Text)
		}
	}
	// 2. what does the body change? dry run of the loop body from the entry state
	changed, all := f.loopModSet(b, bi, li, phiEntry)
	// 3. havoc
	st := entry.clone()
	if all {
		g.epochN++
		st.heap = map[string]string{}
		st.epoch = g.epochN
	}
	nx := g.freshConst("next@loop:"+f.blockLabel(b), "Int")
	g.assert(sLe(entry.next, nx))
	st.next = nx
	if all {
		g.epochBound[st.epoch] = nx
	} else {
		for _, name := range changed {
			es := g.arrReg[name]
			n := g.havocArr(st, name, "loop:"+f.blockLabel(b))
			// frame: objects that existed at function entry and are not in the modifies clause keep
			// their content (every store is checked against the modifies clause)
			if f.top.hasMod && !f.specMode {
				var excl []string
				whole := false
				for _, m := range f.top.mods {
					if m.arr == name {
						if m.ref == "" {
							whole = true
						}
						excl = append(excl, sNot(sEq("r!f", m.ref)))
					}
				}
				if !whole {
					before := g.arr(entry, name, es)
					cond := sAnd(append([]string{sLt("r!f", f.top.entry.next)}, excl...)...)
					g.assert(sImp(bi.R, sForall("r!f", sImp(cond, sEq(sel(n, "r!f"), sel(before, "r!f"))))))
				}
			}
		}
	}
	li.phiFresh = map[*ssa.Phi]T{}
	for _, ins := range b.Instrs {
		// (in instruction order: the generated text must not depend on map iteration order)
		p, isPhi := ins.(*ssa.Phi)
		if !isPhi {
			break
		}
		if _, ok := phiEntry[p]; !ok {
			continue
		}
		c := g.freshConst("phi:"+f.tag+":"+p.Name(), g.sortOf(p.Type()))
		v := mk(c, g.sortOf(p.Type()), p.Type())
		li.phiFresh[p] = v
		f.vals[p] = v
		if w := g.wfFacts(st, v); w != "true" {
			g.assert(sImp(bi.R, w))
		}
		if p.Comment == "rangeindex" {
			// the compiler-generated index of a range loop starts at -1 and only grows
			g.assert(sImp(bi.R, sLe("(- 1)", c)))
		}
	}
	bi.in = st
	// 4. assume the invariant
	if li.lc != nil {
		env := f.specEnv(st, b, 0, nil, li)
		for _, c := range li.lc.Invariants {
			v, err := env.evalBool(c.Expr)
			if err != nil {
				continue
			}
			g.assert(sImp(bi.R, v.S))
		}
	}
}

func clauseLabel(c Clause, i int) string {
	if c.Label != "" {
		return c.Label
	}
	return fmt.Sprint(i + 1)
}

// loopModSet runs the loop body once without recording anything and reports the heap arrays
// whose value differs at a back edge.
func (f *Frame) loopModSet(h *ssa.BasicBlock, bi *BInfo, li *loopInfo, phiEntry map[*ssa.Phi]T) (changed []string, all bool) {
	g := f.g
	snap := g.snapshot()
	saveSpec := f.specMode
	f.specMode = true
	saveVals := f.vals
	saveLocs, saveTup, saveClo := f.locs, f.tuples, f.closures
	saveDefers := f.defers
	saveRets := f.rets
	f.vals = copyMap(saveVals)
	f.locs = copyMapL(saveLocs)
	f.tuples = copyMapT(saveTup)
	f.closures = copyMapC(saveClo)
	saveBinfo := f.binfo
	f.binfo = map[*ssa.BasicBlock]*BInfo{}
	for k, v := range saveBinfo {
		f.binfo[k] = v
	}
	// header executed with the entry state
	hb := &BInfo{R: bi.R, in: bi.in.clone()}
	f.binfo[h] = hb
	for p, v := range phiEntry {
		f.vals[p] = v
	}
	hb.out = hb.in
	for idx, ins := range h.Instrs {
		if _, ok := ins.(*ssa.Phi); ok {
			continue
		}
		f.curBlock, f.curIdx = h, idx
		f.instr(h, hb, idx, ins)
	}
	hb.done = true
	for _, b := range f.order {
		if b == h || !li.body[b] {
			continue
		}
		f.execBlockDry(b, bi.in)
	}
	seen := map[string]bool{}
	for _, src := range li.backs {
		si := f.binfo[src]
		if si == nil || !si.done {
			continue
		}
		if si.out.epoch != bi.in.epoch {
			all = true
		}
		for _, name := range g.sortedArrNames() {
			es := g.arrReg[name]
			if g.arr(si.out, name, es) != g.arr(bi.in, name, es) && !seen[name] {
				seen[name] = true
				changed = append(changed, name)
			}
		}
	}
	// loop exits inside nested structures may also carry changes; they flow through normal merging.
	sort.Strings(changed)
	f.vals, f.locs, f.tuples, f.closures = saveVals, saveLocs, saveTup, saveClo
	f.binfo = saveBinfo
	f.defers = saveDefers
	f.rets = saveRets
	f.specMode = saveSpec
	g.restore(snap)
	if li.lc != nil {
		for _, hname := range li.lc.Havoc {
			if hname == "all" {
				all = true
			}
		}
	}
	return
}

func (f *Frame) execBlockDry(b *ssa.BasicBlock, fallback *State) {
	// nested loop headers: in a dry run the inner loop is handled like in a real run (havoc by its
	// own dry run) — execBlock does that.
	f.execBlock(b, fallback, "false")
}

func copyMap(m map[ssa.Value]T) map[ssa.Value]T {
	n := make(map[ssa.Value]T, len(m))
	for k, v := range m {
		n[k] = v
	}
	return n
}
func copyMapL(m map[ssa.Value]*Loc) map[ssa.Value]*Loc {
	n := make(map[ssa.Value]*Loc, len(m))
	for k, v := range m {
		n[k] = v
	}
	return n
}
func copyMapT(m map[ssa.Value][]T) map[ssa.Value][]T {
	n := make(map[ssa.Value][]T, len(m))
	for k, v := range m {
		n[k] = v
	}
	return n
}
func copyMapC(m map[ssa.Value]*closureVal) map[ssa.Value]*closureVal {
	n := make(map[ssa.Value]*closureVal, len(m))
	for k, v := range m {
		n[k] = v
	}
	return n
}

func (f *Frame) inlineDepthOK() bool { return true }

// backEdge is called when control leaves block `from` towards loop header `h` on a back edge.
func (f *Frame) backEdge(from *ssa.BasicBlock, h *ssa.BasicBlock, cond string, st *State) {
	li := f.loops[h]
	if li == nil || li.lc == nil || f.specMode {
		return
	}
	g := f.g
	subst := map[*ssa.Phi]T{}
	for _, ins := range h.Instrs {
		p, ok := ins.(*ssa.Phi)
		if !ok {
			break
		}
		for k, bp := range h.Preds {
			if bp == from {
				subst[p] = f.val(p.Edges[k])
				break
			}
		}
	}
	if f == f.top || f.inlineDepthOK() {
		// vacuity guard: the back edge must be reachable under everything assumed so far, else
		// every inv-preserve obligation of this loop holds trivially
		g.addObl(&Obligation{Name: f.oblName("cover", "back-edge/"+f.loopLabel(li)), Kind: "cover-loop", Fn: fnDisplay(f.top.fn), Goal: cond, ExpectSat: true, TimeoutS: 3,
			Pos: g.fset.Position(f.curPos), Text: "the back edge of this loop is reachable"})
	}
	env := f.specEnv(st, h, 0, subst, li)
	// assumed invariants hold throughout the loop: they are hypotheses at the back edge too
	for _, c := range li.lc.Invariants {
		if strings.HasPrefix(c.Label, "assumed:") {
			if v, err := env.evalBool(c.Expr); err == nil {
				g.assert(sImp(cond, v.S))
			}
		}
	}
	for i, c := range li.lc.Invariants {
		if strings.HasPrefix(c.Label, "assumed:") {
			continue
		}
		v, err := env.evalBool(c.Expr)
		if err != nil {
			g.resolutionFailure(f, fmt.Sprintf("loop %d invariant %d: %v", li.ordinal, i+1, err))
			continue
		}
		f.addObl("inv-preserve", fmt.Sprintf("%s/%s", f.loopLabel(li), clauseLabel(c, i)), cond, v.S, c.Text)
	}
}
