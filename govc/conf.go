package main

// Bounded conformance / replay on the real code: in-package Go tests injected with
// `go test -overlay` (nothing is written to the repository). They execute the real functions on
// all inputs of a stated small scope and evaluate the same postconditions at run time. Used to
// (a) turn a failed obligation into a concrete failing input, (b) re-confirm known findings,
// (c) cross-check the engine in the thorough tier. Never counted as proof.

import (
	"bufio"
	"bytes"
	"encoding/json"
	"fmt"
	"os"
	"os/exec"
	"path/filepath"
	"strings"
	"time"
)

type confSpec struct {
	Pkg   string            `json:"pkg"`   // package dir relative to the repo
	File  string            `json:"file"`  // test source under /verif/conformance
	Run   string            `json:"run"`   // -run pattern
	Env   map[string]string `json:"env"`
	Scope string            `json:"scope"`
}

type confFailure struct {
	Case   string `json:"case"`
	Fn     string `json:"function"`
	Detail string `json:"detail"`
}

type confResult struct {
	ran       bool
	cmd       string
	failures  []confFailure
	evaluated int
	scopes    []string
	output    string
	errs      []string
	wall      float64
}

func (c *confResult) hasFailure(id string) bool {
	for _, f := range c.failures {
		if f.Case == id {
			return true
		}
	}
	return false
}

func (c *confResult) failureFor(fn string) *confFailure {
	for i := range c.failures {
		if c.failures[i].Fn == fn {
			return &c.failures[i]
		}
	}
	// public wrapper / inner function naming: match on the lower-cased last component
	base := func(s string) string {
		if i := strings.LastIndex(s, "."); i >= 0 {
			s = s[i+1:]
		}
		if i := strings.Index(s, "$"); i >= 0 {
			s = s[:i]
		}
		return strings.ToLower(s)
	}
	for i := range c.failures {
		if base(c.failures[i].Fn) == base(fn) {
			return &c.failures[i]
		}
	}
	return nil
}

func (c *confResult) summary() map[string]interface{} {
	return map[string]interface{}{
		"label": "bounded (never counted as proved)", "scopes": c.scopes, "evaluations": c.evaluated,
		"failures": c.failures, "cmd": c.cmd, "errors": c.errs, "wall_s": c.wall,
	}
}

func runConformance(repo, verif, prop, tier string, seed int) *confResult {
	res := &confResult{}
	b, err := os.ReadFile(filepath.Join(verif, "conformance", "index.json"))
	if err != nil {
		return res
	}
	var idx map[string][]confSpec
	if err := json.Unmarshal(b, &idx); err != nil {
		res.errs = append(res.errs, err.Error())
		return res
	}
	specs := idx[prop]
	if len(specs) == 0 {
		return res
	}
	t0 := time.Now()
	tmp, err := os.MkdirTemp("/var/tmp", "govc-conf-")
	if err != nil {
		res.errs = append(res.errs, err.Error())
		return res
	}
	defer os.RemoveAll(tmp)
	for _, sp := range specs {
		ov := map[string]map[string]string{"Replace": {}}
		target := filepath.Join(repo, sp.Pkg, "zz_verif_conformance_test.go")
		ov["Replace"][target] = filepath.Join(verif, "conformance", sp.File)
		ob, _ := json.Marshal(ov)
		ovf := filepath.Join(tmp, "overlay.json")
		os.WriteFile(ovf, ob, 0o644)
		args := []string{"test", "-overlay", ovf, "-vet=off", "-v", "-count=1", "-timeout", "120s", "-run", sp.Run, "./" + sp.Pkg}
		cmd := exec.Command("go", args...)
		cmd.Dir = repo
		cmd.Env = append(os.Environ(), "VERIF_TIER="+tier, fmt.Sprintf("VERIF_SEED=%d", seed), "GOFLAGS=-mod=mod", "GOPROXY=off", "GOTOOLCHAIN=local")
		for k, v := range sp.Env {
			cmd.Env = append(cmd.Env, k+"="+v)
		}
		var out bytes.Buffer
		cmd.Stdout = &out
		cmd.Stderr = &out
		cmd.Run()
		res.ran = true
		res.cmd = "cd " + repo + " && go " + strings.Join(args, " ") + "   # overlay: " + target + " <- " + ov["Replace"][target]
		res.scopes = append(res.scopes, sp.Scope)
		sc := bufio.NewScanner(&out)
		sc.Buffer(make([]byte, 1<<20), 1<<20)
		sawStats := false
		for sc.Scan() {
			line := sc.Text()
			line = strings.TrimSpace(line)
			if i := strings.Index(line, "CONF-FAIL "); i >= 0 {
				f := confFailure{}
				for _, kv := range splitKV(line[i+len("CONF-FAIL "):]) {
					switch kv[0] {
					case "case":
						f.Case = kv[1]
					case "fn":
						f.Fn = kv[1]
					case "detail":
						f.Detail = kv[1]
					}
				}
				dup := false
				for _, x := range res.failures {
					if x.Case == f.Case {
						dup = true
					}
				}
				if !dup {
					res.failures = append(res.failures, f)
				}
			}
			if i := strings.Index(line, "CONF-STATS "); i >= 0 {
				sawStats = true
				for _, kv := range splitKV(line[i+len("CONF-STATS "):]) {
					if kv[0] == "evaluated" {
						var n int
						fmt.Sscan(kv[1], &n)
						res.evaluated += n
					}
				}
			}
		}
		if !sawStats {
			res.errs = append(res.errs, "conformance run gave no statistics: "+truncate(out.String(), 1500))
		}
	}
	res.wall = time.Since(t0).Seconds()
	return res
}

// splitKV parses `k=v k2="v with spaces"` (detail= takes the rest of the line).
func splitKV(s string) [][2]string {
	var out [][2]string
	for len(s) > 0 {
		s = strings.TrimLeft(s, " ")
		i := strings.Index(s, "=")
		if i < 0 {
			break
		}
		k := s[:i]
		s = s[i+1:]
		if k == "detail" {
			out = append(out, [2]string{k, s})
			break
		}
		j := strings.Index(s, " ")
		if j < 0 {
			j = len(s)
		}
		out = append(out, [2]string{k, s[:j]})
		s = s[j:]
	}
	return out
}
