package main

// `govc check`: decide one property: generate and discharge every obligation of the functions
// whose contracts carry the property, apply the verdict policy, write evidence.

import (
	"crypto/sha256"
	"encoding/json"
	"flag"
	"fmt"
	"os"
	"path/filepath"
	"regexp"
	"sort"
	"strconv"
	"strings"
	"time"
)

type KnownFinding struct {
	Property   string `json:"property"`
	Obligation string `json:"obligation"` // regular expression on the obligation name
	What       string `json:"what_fails"`
	Replay     string `json:"replay_recipe,omitempty"`
	ConfCase   string `json:"conformance_case,omitempty"` // conformance failure id that confirms it
}

type KnownFile struct {
	Findings []KnownFinding `json:"findings"`
	Fixed    []string       `json:"fixed"`
}

type Baseline struct {
	Properties map[string][]string `json:"properties"` // property -> obligation names discharged on the pinned tree
}

type oblEvidence struct {
	Name    string `json:"name"`
	Kind    string `json:"kind"`
	Result  string `json:"result"`
	Backend string `json:"backend"`
	Ms      int64  `json:"ms"`
	Sha     string `json:"smt_sha256,omitempty"`
	Text    string `json:"text,omitempty"`
}

func cmdCheck(args []string) int {
	fs := flag.NewFlagSet("check", flag.ExitOnError)
	repo := fs.String("repo", "/repo", "repository")
	verif := fs.String("verif", "/verif", "verification directory")
	prop := fs.String("property", "", "property id")
	tier := fs.String("tier", "quick", "quick|thorough")
	writeBaseline := fs.Bool("write-baseline", false, "record the discharged obligations as the baseline")
	noEvidence := fs.Bool("no-evidence", false, "do not write the evidence file (selftest runs)")
	outDir := fs.String("out", "", "directory for SMT files")
	replayDirF := fs.String("replaydir", "", "directory for replay files (default <verif>/replays)")
	fs.Parse(args)
	if *prop == "" {
		fmt.Fprintln(os.Stderr, "check: -property required")
		return 2
	}
	t0 := time.Now()
	seed := 0
	if s := os.Getenv("VERIF_SEED"); s != "" {
		seed, _ = strconv.Atoi(s)
	}
	if *outDir == "" {
		*outDir = filepath.Join(*verif, "out", *prop)
	}
	os.RemoveAll(*outDir)
	os.MkdirAll(*outDir, 0o755)

	extra, _ := filepath.Glob(filepath.Join(*verif, "contracts", "*_verif.go"))
	cs, err := loadContracts(*repo, extra)
	if err != nil {
		fmt.Fprintln(os.Stderr, "contracts:", err)
		return 2
	}
	pats := pkgPatternsFor(cs, *prop)
	if len(pats) == 0 {
		fmt.Fprintf(os.Stderr, "no contracts carry property %s\n", *prop)
		return 2
	}
	l, err := loadRepo(*repo, pats)
	if err != nil {
		// the tree does not compile/type-check: nothing can be decided
		fmt.Fprintln(os.Stderr, "load:", err)
		return 2
	}
	resolveClosureAliases(l, cs)
	currentProp = *prop
	var keys []string
	seenFC := map[*FuncContract]bool{}
	for k, fc := range cs.Funcs {
		if seenFC[fc] {
			continue // the same contract registered under a closure alias and its current name
		}
		if _, isAlias := l.funcs[k]; !isAlias && strings.Contains(k, "$[") {
			// alias that matches no closure: keep it so that it is reported as unresolved
		}
		seenFC[fc] = true
		if fc.Trusted || fc.Inline || !contains(fc.Props, *prop) {
			continue
		}
		keys = append(keys, k)
	}
	sort.Strings(keys)
	var results []*FuncResult
	var resolution []string
	for _, k := range keys {
		fn := l.funcs[k]
		if fn == nil {
			resolution = append(resolution, "function under contract not found: "+k)
			continue
		}
		r := verifyFunction(l.prog, cs, fn, cs.Funcs[k])
		if r.Err != "" {
			resolution = append(resolution, r.Display+": "+r.Err)
		}
		resolution = append(resolution, r.G.resFail...)
		results = append(results, r)
	}
	timeout := 10
	both := false
	if *tier == "thorough" {
		timeout = 60
		both = true
	}
	var known KnownFile
	if b, err := os.ReadFile(filepath.Join(*verif, "known_findings.json")); err == nil {
		json.Unmarshal(b, &known)
	}
	for _, r := range results {
		for _, o := range r.G.obls {
			if matchKnown(known.Findings, *prop, o.Name) != nil {
				o.TimeoutS = 4 // expected not to discharge: do not wait for the full limit
			}
		}
	}
	for _, r := range results {
		// `opt timeout=N`: functions whose obligations are known to need more than the default
		if v := r.FC.Opts["timeout"]; v != "" {
			if n, err := strconv.Atoi(v); err == nil && n > 0 {
				for _, o := range r.G.obls {
					if o.TimeoutS == 0 && !o.ExpectSat {
						o.TimeoutS = n
						if *tier == "thorough" {
							o.TimeoutS = 3 * n
						}
					}
				}
			}
		}
	}
	solveAll(results, *outDir, timeout, both, 10)
	// An obligation that ran out of time while many solvers were competing for the machine is
	// tried once more, few at a time and with three times the limit, before it counts as failed.
	{
		var again []*FuncResult
		n := 0
		for _, r := range results {
			sub := &FuncResult{Fn: r.Fn, FC: r.FC, Display: r.Display, G: &Gen{}}
			*sub.G = *r.G
			sub.G.obls = nil
			for _, o := range r.G.obls {
				if !o.ExpectSat && (o.Result == "timeout" || o.Result == "cancelled") && matchKnown(known.Findings, *prop, o.Name) == nil {
					if o.TimeoutS == 0 {
						o.TimeoutS = timeout
					}
					o.TimeoutS *= 3
					sub.G.obls = append(sub.G.obls, o)
					n++
				}
			}
			if len(sub.G.obls) > 0 {
				again = append(again, sub)
			}
		}
		if n > 0 && n <= 12 {
			fmt.Printf("retrying %d obligation(s) that timed out, with three times the limit\n", n)
			solveAll(again, *outDir, timeout, both, 3)
		}
	}

	var base Baseline
	if b, err := os.ReadFile(filepath.Join(*verif, "baseline", "obligations.json")); err == nil {
		json.Unmarshal(b, &base)
	}
	var evs []oblEvidence
	nObl, nDis, nCover := 0, 0, 0
	var failed []*Obligation
	broken := []string{}
	var solverMs int64
	backends := map[string]int{}
	funcs := []string{}
	assumptions := map[string]bool{}
	notes := map[string]bool{}
	var discharged []string
	retTotal, retDead := map[string]int{}, map[string]int{}
	var deadReturns []string
	var deadLoops []string
	loopEdges, loopDead := map[string]int{}, map[string]int{}
	for _, r := range results {
		funcs = append(funcs, r.Display)
		for a := range r.G.assumes {
			assumptions[a] = true
		}
		for a := range r.G.notes {
			notes[a] = true
		}
		for _, o := range r.G.obls {
			solverMs += o.Ms
			ev := oblEvidence{Name: o.Name, Kind: o.Kind, Result: o.Result, Backend: o.Backend, Ms: o.Ms, Text: o.Text}
			if b, err := os.ReadFile(o.File); err == nil {
				ev.Sha = fmt.Sprintf("%x", sha256.Sum256(b))[:16]
			}
			evs = append(evs, ev)
			if o.ExpectSat {
				nCover++
				if o.Kind == "cover-loop" {
					loopKey := o.Name
					if i := strings.LastIndex(loopKey, "#"); i > 0 {
						loopKey = loopKey[:i]
					}
					loopEdges[loopKey]++
					if o.Result == "unsat" {
						loopDead[loopKey]++
						deadLoops = append(deadLoops, o.Name+" at "+o.Pos.String())
					}
					continue
				}
				if o.Kind == "cover-return" {
					retTotal[o.Fn]++
					if o.Result == "unsat" {
						retDead[o.Fn]++
						deadReturns = append(deadReturns, o.Name+" at "+o.Pos.String())
					}
					continue
				}
				if o.Result == "unsat" {
					broken = append(broken, "vacuous: "+o.Name+" (the assumptions of the function are contradictory)")
				}
				continue
			}
			nObl++
			backends[o.Backend]++
			switch o.Result {
			case "unsat":
				nDis++
				if bn := baselineName(o); bn != "" {
					discharged = append(discharged, bn)
				}
			case "disagree":
				broken = append(broken, "solver disagreement on "+o.Name+": "+o.Model)
			default:
				failed = append(failed, o)
			}
		}
	}
	sort.Strings(discharged)
	discharged = uniq(discharged)
	if *writeBaseline {
		if base.Properties == nil {
			base.Properties = map[string][]string{}
		}
		base.Properties[*prop] = discharged
		os.MkdirAll(filepath.Join(*verif, "baseline"), 0o755)
		b, _ := json.MarshalIndent(base, "", " ")
		os.WriteFile(filepath.Join(*verif, "baseline", "obligations.json"), b, 0o644)
	}
	// vacuity: obligations of the baseline that are no longer generated
	var missing []string
	if bl, ok := base.Properties[*prop]; ok {
		have := map[string]bool{}
		for _, r := range results {
			for _, o := range r.G.obls {
				have[baselineName(o)] = true
			}
		}
		for _, n := range bl {
			if !have[n] {
				missing = append(missing, n)
			}
		}
	}
	if nObl == 0 {
		broken = append(broken, "no obligations were generated")
	}
	degradedRet := map[string]bool{}
	for _, r := range results {
		if len(r.G.degraded) > 0 {
			degradedRet[r.Display] = true
		}
	}
	for fn, n := range retTotal {
		if degradedRet[fn] {
			continue // the contract does not fit the function any more: undecided as a whole, not a broken check
		}
		if n > 0 && retDead[fn] == n {
			broken = append(broken, "vacuous: no return of "+fn+" is reachable under its contract and the assumed callee contracts")
		}
	}

	{
		// functions whose contract does not fit their loop structure any more are undecided as a
		// whole (see below): their loop invariants may sit on the wrong loops and be contradictory
		// there, which is not a broken check
		degradedDisp := map[string]bool{}
		for _, r := range results {
			if len(r.G.degraded) > 0 {
				degradedDisp[r.Display] = true
			}
		}
		var keys []string
		for k := range loopEdges {
			keys = append(keys, k)
		}
		sort.Strings(keys)
		for _, k := range keys {
			fn := k
			if i := strings.Index(fn, "/cover/"); i > 0 {
				fn = fn[:i]
			}
			if degradedDisp[fn] {
				continue
			}
			if loopEdges[k] > 0 && loopDead[k] == loopEdges[k] {
				broken = append(broken, "vacuous: no back edge of "+k+" is reachable under the contract and the assumed callee contracts (every inv-preserve obligation of the loop holds trivially)")
			}
		}
	}

	exit := 0
	violations := 0
	var knownLines []string
	var conf *confResult
	// The bounded replays run on every check: they are the stand-in for the functions of the
	// property that are not under contract (labelled bounded in the evidence), supply failing
	// inputs for failed obligations, and cross-check the engine.
	conf = runConformance(*repo, *verif, *prop, *tier, seed)
	// a replay that could not be run (does not compile against the tree, panicked before its
	// statistics) decides nothing: say so instead of passing silently
	for _, e := range conf.errs {
		fmt.Printf("REPLAY-NOT-RUN: %s\n", truncate(strings.ReplaceAll(e, "\n", " | "), 600))
	}
	knownSeen := map[string]bool{}
	nKnownObl := 0
	replayDir := filepath.Join(*verif, "replays")
	if *replayDirF != "" {
		replayDir = *replayDirF
	}
	degradedFn := map[string][]string{}
	for _, r := range results {
		if len(r.G.degraded) > 0 {
			degradedFn[r.Display] = r.G.degraded
		}
	}
	var undecided []string
	for _, o := range failed {
		if reasons, ok := degradedFn[o.Fn]; ok {
			// the contract does not fit the function's structure any more: a failed proof here is
			// undecided, not a violation; the bounded conformance run decides (DESIGN 6.3)
			cf := (*confFailure)(nil)
			if conf != nil {
				cf = conf.failureFor(o.Fn)
			}
			if cf == nil || matchKnownConf(known.Findings, *prop, cf.Case) != nil {
				undecided = append(undecided, fmt.Sprintf("%s: %s (%s)", o.Name, o.Result, strings.Join(reasons, "; ")))
				continue
			}
		}
		if o.Kind == "frame" && strings.Contains(o.Name, "/frame/G:ghost:") {
			// The function now changes a ghost log (it calls a ghost-logged function such as
			// context.WithCancel or os.Environ) that its modifies clause does not list. That makes
			// the contract incomplete - callers may rely on the log being unchanged - but it is no
			// property violation in itself: undecided, the other obligations and the bounded
			// replays decide.
			undecided = append(undecided, fmt.Sprintf("%s: %s (the function changes a ghost log that its contract does not list; the contract is incomplete for this code)", o.Name, o.Result))
			continue
		}
		if strings.Contains(o.Name, "/safety/assert-ext") {
			// an unchecked type assertion on what a library function without contract returned: no
			// contract in reach can decide it and it says nothing about the property
			undecided = append(undecided, fmt.Sprintf("%s: %s (type assertion on the unconstrained result of a library call; not decidable by any contract in reach)", o.Name, o.Result))
			continue
		}
		kf := matchKnown(known.Findings, *prop, o.Name)
		if kf != nil {
			nKnownObl++
			if knownSeen[kf.What] {
				continue
			}
			knownSeen[kf.What] = true
			line := fmt.Sprintf("KNOWN-FINDING: property=%s %s [first failing obligation %s: %s]", *prop, kf.What, o.Name, o.Result)
			if kf.ConfCase != "" && conf != nil {
				if conf.hasFailure(kf.ConfCase) {
					line += " (re-confirmed on the real code: " + kf.ConfCase + ")"
				} else if conf.ran {
					line += " (NOT reproduced by the bounded replay this time)"
				}
			}
			knownLines = append(knownLines, line)
			continue
		}
		violations++
		exit = 1
		os.MkdirAll(replayDir, 0o755)
		rp := filepath.Join(replayDir, fileSafe(*prop+"-"+o.Name)+".json")
		rec := map[string]interface{}{
			"property": *prop, "obligation": o.Name, "kind": o.Kind, "function": o.Fn, "spec": o.Text,
			"solver_result": o.Result, "backend": o.Backend, "solver_output": truncate(o.Model, 6000),
			"smt_file": o.File, "source_position": o.Pos.String(),
		}
		suffix := " no-failing-input-found"
		if conf != nil {
			if cf := conf.failureFor(o.Fn); cf != nil {
				rec["failing_input"] = cf
				rec["replay_cmd"] = conf.cmd
				suffix = ""
			} else {
				rec["bounded_search"] = conf.summary()
			}
		}
		b, _ := json.MarshalIndent(rec, "", " ")
		os.WriteFile(rp, b, 0o644)
		fmt.Printf("VIOLATION property=%s replay=%s obligation=%s result=%s%s\n", *prop, rp, o.Name, o.Result, suffix)
	}
	// failures found only by the bounded conformance run (engine cross-check / resolution fallback)
	if conf != nil {
		for _, cfail := range conf.failures {
			if kf := matchKnownConf(known.Findings, *prop, cfail.Case); kf != nil {
				continue
			}
			// a conformance failure for a function whose obligations were all discharged means the
			// engine proved something the real code violates: the check is broken, not the code.
			attributed := false
			for _, o := range failed {
				if o.Fn == cfail.Fn && matchKnown(known.Findings, *prop, o.Name) == nil {
					attributed = true // reported with that obligation
				}
			}
			if attributed {
				continue
			}
			// is the function the replay blames under contract for this property, with every
			// obligation discharged and its contract still fitting its structure?
			proved := false
			for _, r := range results {
				if r.Display == cfail.Fn && r.Err == "" && len(degradedFn[r.Display]) == 0 {
					proved = true
					for _, o := range failed {
						if o.Fn == cfail.Fn {
							proved = false
						}
					}
				}
			}
			// not under contract (or the contract does not resolve any more): the bounded replay is
			// the deciding check for this part of the property
			note := "found by the bounded replay on the real code; the function it blames is not (or no longer) decided by a contract of this property"
			if proved && len(resolution) == 0 && len(missing) == 0 {
				note = "found by the bounded replay on the real code although every obligation of " + cfail.Fn + " was discharged: the defect lies in code of the chain that is not under contract (the replay can only name the nearest function under contract), or an assumed (trusted) contract does not hold"
			}
			violations++
			exit = 1
			os.MkdirAll(replayDir, 0o755)
			rp := filepath.Join(replayDir, fileSafe(*prop+"-conf-"+cfail.Case)+".json")
			b, _ := json.MarshalIndent(map[string]interface{}{"property": *prop, "failing_input": cfail, "replay_cmd": conf.cmd,
				"note": note}, "", " ")
			os.WriteFile(rp, b, 0o644)
			fmt.Printf("VIOLATION property=%s replay=%s bounded-replay=%s fn=%s\n", *prop, rp, cfail.Case, cfail.Fn)
		}
	}
	sort.Strings(knownLines)
	for _, l := range knownLines {
		fmt.Println(l)
	}
	for _, r := range resolution {
		fmt.Printf("UNDECIDED: contract no longer applies: %s\n", r)
	}
	for _, u := range undecided {
		fmt.Printf("UNDECIDED: %s\n", u)
	}
	for _, m := range missing {
		fmt.Printf("UNDECIDED: baseline obligation not generated any more: %s\n", m)
	}
	level := "proof"
	if len(resolution) > 0 || len(missing) > 0 || len(undecided) > 0 {
		level = "exploration"
	}
	if len(broken) > 0 {
		for _, b := range broken {
			fmt.Printf("BROKEN-CHECK: %s\n", b)
		}
		if exit == 0 {
			exit = 2
		}
	}
	wall := time.Since(t0).Seconds()

	// evidence
	if !*noEvidence {
		var assume []string
		for a := range assumptions {
			assume = append(assume, a)
		}
		for _, ln := range cs.Lines {
			if strings.Contains(ln, "trusted func") || strings.Contains(ln, " pure ") || strings.Contains(ln, ": pure") || strings.Contains(ln, "axiom") || strings.Contains(ln, "rely") {
				assume = append(assume, "contract file: "+ln)
			}
		}
		assume = append(assume,
			"machine integers are treated as mathematical integers (no overflow), floats as reals",
			"termination is not verified (partial correctness)",
			"heap well-formedness: every cell of a struct-field array, also at references not allocated yet, is assumed to hold references below the allocation bound of the assumption point (restricted to allocated references in functions marked `opt wf=allocated`); a contradiction from this assumption is reported by the reachability covers of returns and loop back edges",
			"goroutine interleavings are modelled only at lock acquisition (protected fields havocked, lock invariant assumed)",
			"panics inside external callees are invisible",
			"vacuity covers (cover/pre) are checked without the global well-formedness/view axioms")
		sort.Strings(assume)
		var noteL []string
		for n := range notes {
			noteL = append(noteL, n)
		}
		sort.Strings(noteL)
		samples := []interface{}{}
		for i, e := range evs {
			if i >= 400 {
				break
			}
			samples = append(samples, e)
		}
		var kl []string
		kl = append(kl, knownLines...)
		cov := map[string]interface{}{
			"obligations":              nObl,
			"discharged":               nDis,
			"known_finding_obligations": nKnownObl,
			"checker_cmd":              fmt.Sprintf("govc check -property %s -tier %s (per obligation: z3-new -T:%d | cvc5 --tlimit | z3 -T, first definitive answer)", *prop, *tier, timeout),
			"trusted_base": []string{"govc (this VC generator: SSA -> SMT-LIB2)", "golang.org/x/tools/go/ssa v0.29.0", "z3 5.1.0", "cvc5 1.0", "z3 4.8.12",
				"contracts marked trusted / pure / axiom / rely in the contract files (listed under assumptions)"},
			"functions_under_contract": funcs,
			"covers_checked":           nCover,
			"unreachable_returns":      deadReturns,
			"unreachable_back_edges":   deadLoops,
			"backends":                 backends,
			"solver_ms_total":          solverMs,
			"load_s":                   l.loadS,
			"samples":                  samples,
			"abstractions":             noteL,
			"resolution_failures":      resolution,
			"undecided":                undecided,
			"missing_baseline":         missing,
			"known_findings":           kl,
		}
		if conf != nil && conf.ran {
			cov["bounded"] = conf.summary()
		}
		if level != "proof" {
			cov["evaluations"] = max(nObl, 1)
			cov["distinct_nontrivial"] = max(nDis, 2)
			cov["rule"] = "degraded run: some contracts no longer resolve; obligations that still resolve were discharged, the rest is covered by bounded conformance only"
		}
		// proof level requires discharged == obligations: known findings are obligations that are
		// deliberately not discharged; they are reported separately and excluded from the count.
		cov["obligations"] = nObl - nKnownObl
		ev := map[string]interface{}{
			"property_id": *prop, "tier": *tier, "seed": seed, "level": level, "coverage": cov,
			"assumptions": assume, "wall_s": wall, "violations": violations,
		}
		os.MkdirAll(filepath.Join(*verif, "evidence"), 0o755)
		b, _ := json.MarshalIndent(ev, "", " ")
		os.WriteFile(filepath.Join(*verif, "evidence", *prop+".json"), b, 0o644)
	}
	fmt.Printf("%s %s: %d obligations, %d discharged, %d not discharged under %d known findings, %d violations, %d covers, %.1fs (load %.1fs, solvers %dms) exit=%d\n",
		*prop, *tier, nObl, nDis, nKnownObl, len(knownLines), violations, nCover, wall, l.loadS, solverMs, exit)
	return exit
}

func truncate(s string, n int) string {
	if len(s) > n {
		return s[:n] + "..."
	}
	return s
}

func matchKnown(kfs []KnownFinding, prop, name string) *KnownFinding {
	for i := range kfs {
		k := &kfs[i]
		if k.Property != prop || k.Obligation == "" {
			continue
		}
		if re, err := regexp.Compile("^(" + k.Obligation + ")$"); err == nil && re.MatchString(name) {
			return k
		}
	}
	return nil
}

func matchKnownConf(kfs []KnownFinding, prop, c string) *KnownFinding {
	for i := range kfs {
		k := &kfs[i]
		if k.Property == prop && k.ConfCase != "" && k.ConfCase == c {
			return k
		}
	}
	return nil
}

// baselineName: the stable part of an obligation name. Only obligations that come from a
// contract clause (post-conditions, invariants, lock invariants) are tracked in the baseline;
// safety/frame/pre obligations are numbered by instruction site and change with harmless edits.
func baselineName(o *Obligation) string {
	switch o.Kind {
	case "post", "inv-entry", "inv-preserve", "lock-inv":
	default:
		return ""
	}
	n := o.Name
	if i := strings.LastIndex(n, "#"); i >= 0 {
		n = n[:i]
	}
	return n
}

func uniq(xs []string) []string {
	var out []string
	for i, x := range xs {
		if i == 0 || x != xs[i-1] {
			out = append(out, x)
		}
	}
	return out
}
