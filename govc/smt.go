package main

// Term construction helpers. Terms are SMT-LIB2 strings with a sort and (optionally) the Go
// type they stand for.

import (
	"fmt"
	"go/types"
	"strings"
)

type Sort = string

// T is a symbolic term.
type T struct {
	S    string     // SMT-LIB2 text
	Sort Sort       // SMT sort
	GT   types.Type // Go type (may be nil for purely logical terms)
}

func mk(s string, sort Sort, gt types.Type) T { return T{S: s, Sort: sort, GT: gt} }

func boolT(s string) T { return T{S: s, Sort: "Bool", GT: types.Typ[types.Bool]} }
func intT(s string) T  { return T{S: s, Sort: "Int", GT: types.Typ[types.Int]} }

var tTrue = boolT("true")
var tFalse = boolT("false")

func app(op string, args ...string) string {
	if len(args) == 0 {
		return op // a constant: SMT-LIB has no empty application
	}
	return "(" + op + " " + strings.Join(args, " ") + ")"
}

func sAnd(xs ...string) string {
	var out []string
	for _, x := range xs {
		if x == "true" || x == "" {
			continue
		}
		if x == "false" {
			return "false"
		}
		out = append(out, x)
	}
	switch len(out) {
	case 0:
		return "true"
	case 1:
		return out[0]
	}
	return app("and", out...)
}

func sOr(xs ...string) string {
	var out []string
	for _, x := range xs {
		if x == "false" || x == "" {
			continue
		}
		if x == "true" {
			return "true"
		}
		out = append(out, x)
	}
	switch len(out) {
	case 0:
		return "false"
	case 1:
		return out[0]
	}
	return app("or", out...)
}

func sNot(x string) string {
	switch x {
	case "true":
		return "false"
	case "false":
		return "true"
	}
	if strings.HasPrefix(x, "(not ") && balancedTail(x[5:len(x)-1]) {
		return x[5 : len(x)-1]
	}
	return app("not", x)
}

// balancedTail reports whether s is a single balanced s-expression (so that stripping
// "(not " ... ")" is legal).
func balancedTail(s string) bool {
	depth := 0
	inBar := false
	for i, c := range s {
		switch {
		case c == '|':
			inBar = !inBar
		case inBar:
		case c == '(':
			depth++
		case c == ')':
			depth--
			if depth < 0 {
				return false
			}
			if depth == 0 && i != len(s)-1 {
				return false
			}
		case c == ' ' && depth == 0:
			return false
		}
	}
	return depth == 0
}

func sImp(a, b string) string {
	if a == "true" {
		return b
	}
	if a == "false" || b == "true" {
		return "true"
	}
	return app("=>", a, b)
}

func sEq(a, b string) string {
	if a == b {
		return "true"
	}
	return app("=", a, b)
}

func sIte(c, a, b string) string {
	if c == "true" {
		return a
	}
	if c == "false" {
		return b
	}
	if a == b {
		return a
	}
	return app("ite", c, a, b)
}

func isIntLit(s string) bool {
	if s == "" {
		return false
	}
	for _, c := range s {
		if c < '0' || c > '9' {
			return false
		}
	}
	return true
}

func sAdd(a, b string) string {
	if a == "0" {
		return b
	}
	if b == "0" {
		return a
	}
	if isIntLit(a) && isIntLit(b) {
		var x, y int64
		fmt.Sscan(a, &x)
		fmt.Sscan(b, &y)
		return fmt.Sprint(x + y)
	}
	return app("+", a, b)
}

func sSub(a, b string) string {
	if b == "0" {
		return a
	}
	if isIntLit(a) && isIntLit(b) {
		var x, y int64
		fmt.Sscan(a, &x)
		fmt.Sscan(b, &y)
		if x >= y {
			return fmt.Sprint(x - y)
		}
	}
	return app("-", a, b)
}

func sInt(n int64) string {
	if n < 0 {
		return fmt.Sprintf("(- %d)", -n)
	}
	return fmt.Sprint(n)
}

func sel(arr, idx string) string      { return app("select", arr, idx) }
func sto(arr, idx, v string) string   { return app("store", arr, idx, v) }
func sLe(a, b string) string          { return app("<=", a, b) }
func sLt(a, b string) string          { return app("<", a, b) }
func sForall(v, body string) string   { return "(forall ((" + v + " Int)) " + body + ")" }
func sForallS(v, sort, body string) string {
	return "(forall ((" + v + " " + sort + ")) " + body + ")"
}
func sExists(v, body string) string { return "(exists ((" + v + " Int)) " + body + ")" }

// slice component accessors
func slBase(s string) string { return stripMk(s, 0, "s-base") }
func slOff(s string) string  { return stripMk(s, 1, "s-off") }
func slLen(s string) string  { return stripMk(s, 2, "s-len") }
func slCap(s string) string  { return stripMk(s, 3, "s-cap") }
func mkSlice(base, off, ln, cp string) string {
	return app("mk-slice", base, off, ln, cp)
}

// stripMk simplifies (s-xxx (mk-slice a b c d)) syntactically.
func stripMk(s string, i int, acc string) string {
	if strings.HasPrefix(s, "(mk-slice ") {
		parts := splitTop(s[len("(mk-slice ") : len(s)-1])
		if len(parts) == 4 {
			return parts[i]
		}
	}
	return app(acc, s)
}

// splitTop splits a space separated list of s-expressions at top level.
func splitTop(s string) []string {
	var out []string
	depth := 0
	inBar := false
	start := -1
	for i := 0; i < len(s); i++ {
		c := s[i]
		switch {
		case c == '|':
			inBar = !inBar
			if start < 0 {
				start = i
			}
		case inBar:
		case c == '"':
			// string literal
			if start < 0 {
				start = i
			}
			i++
			for i < len(s) {
				if s[i] == '"' {
					if i+1 < len(s) && s[i+1] == '"' {
						i += 2
						continue
					}
					break
				}
				i++
			}
		case c == '(':
			if start < 0 {
				start = i
			}
			depth++
		case c == ')':
			depth--
		case c == ' ' || c == '\n' || c == '\t':
			if depth == 0 && start >= 0 {
				out = append(out, s[start:i])
				start = -1
			}
		default:
			if start < 0 {
				start = i
			}
		}
	}
	if start >= 0 {
		out = append(out, s[start:])
	}
	return out
}

// quote makes an SMT symbol out of an arbitrary name.
func quote(name string) string {
	simple := true
	for _, c := range name {
		if !(c >= 'a' && c <= 'z' || c >= 'A' && c <= 'Z' || c >= '0' && c <= '9' || c == '_' || c == '.' || c == '$' || c == '@' || c == '!') {
			simple = false
			break
		}
	}
	if simple && name != "" && !(name[0] >= '0' && name[0] <= '9') {
		return name
	}
	name = strings.ReplaceAll(name, "|", "!")
	name = strings.ReplaceAll(name, "\\", "!")
	return "|" + name + "|"
}

// sForallPat builds a universally quantified formula with explicit triggers: every maximal
// (select X v) term of `src` whose index is exactly the bound variable.
func sForallPat(v, body, src string) string {
	pats := barePatterns(src, v)
	if len(pats) == 0 {
		return sForall(v, body)
	}
	var b strings.Builder
	b.WriteString("(forall ((" + v + " Int)) (! " + body)
	for _, p := range pats {
		b.WriteString(" :pattern (" + p + ")")
	}
	b.WriteString("))")
	return b.String()
}

func barePatterns(s, v string) []string {
	seen := map[string]bool{}
	var out []string
	var walk func(e string)
	walk = func(e string) {
		if !strings.HasPrefix(e, "(") {
			return
		}
		inner := e[1 : len(e)-1]
		parts := splitTop(inner)
		if len(parts) == 0 {
			return
		}
		if parts[0] == "forall" || parts[0] == "exists" {
			return // nested binder: do not look inside
		}
		if parts[0] == "select" && len(parts) == 3 && parts[2] == v && !strings.Contains(parts[1], v) && patternOK(parts[1]) {
			if !seen[e] {
				seen[e] = true
				out = append(out, e)
			}
			return
		}
		// application of an uninterpreted spec function / pure method to the bare variable
		if (strings.HasPrefix(parts[0], "|spec:") || strings.HasPrefix(parts[0], "|m:")) && patternOK(e) {
			bare := false
			for _, a := range parts[1:] {
				if a == v {
					bare = true
				}
			}
			if bare {
				if !seen[e] {
					seen[e] = true
					out = append(out, e)
				}
				return
			}
		}
		for _, p := range parts[1:] {
			walk(p)
		}
	}
	walk(s)
	return out
}

// patternOK: triggers may not contain logical connectives or term-level ite.
func patternOK(s string) bool {
	for _, bad := range []string{"(ite ", "(and ", "(or ", "(not ", "(=> ", "(= ", "(<= ", "(< ", "(forall ", "(exists "} {
		if strings.Contains(s, bad) {
			return false
		}
	}
	return true
}
