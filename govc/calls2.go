package main

import (
	"fmt"
	"go/ast"
	"go/types"
	"strings"

	"golang.org/x/tools/go/ssa"
)

// ---------------------------------------------------------------- inlining

func (f *Frame) inChain(fn *ssa.Function) bool {
	for fr := f; fr != nil; fr = fr.parent {
		if fr.fn == fn {
			return true
		}
	}
	return false
}

func (f *Frame) inlineCall(bi *BInfo, fn *ssa.Function, cl *closureVal, args []T, argVals []ssa.Value) []T {
	g := f.g
	if fn.Blocks == nil || f.depth >= g.maxInline || f.inChain(fn) {
		g.note("call to %s not inlined (depth/recursion/no body): heap havocked", fnDisplay(fn))
		f.havocAll(bi)
		return f.freshResults(fn.Signature)
	}
	child := g.newFrame(fn, f)
	for i, p := range fn.Params {
		if i >= len(args) {
			break
		}
		var av ssa.Value
		if i < len(argVals) {
			av = argVals[i]
		}
		if args[i].S == "" && av != nil {
			if l, ok := f.locs[av]; ok {
				child.locs[p] = l
				continue
			}
		}
		a := args[i]
		if a.S == "" {
			a = mk(g.freshConst("argaddr", "Int"), "Int", p.Type())
		}
		child.setVal(p, a)
		child.params[p.Name()] = child.vals[p]
		if av != nil {
			if k := f.findParamFn(av); k != "" {
				child.paramFns[p] = k
			}
			if c := f.findClosure(av); c != nil {
				child.closures[p] = c
			}
			if sf, ok := av.(*ssa.Function); ok {
				child.staticFns[p] = sf
			} else if sf := f.findStaticFn(av); sf != nil {
				child.staticFns[p] = sf
			}
		}
	}
	if cl != nil {
		for i, fv := range fn.FreeVars {
			if i >= len(cl.bindings) {
				break
			}
			b := cl.bindings[i]
			if l, ok := cl.frame.locs[b]; ok {
				child.locs[fv] = l
				continue
			}
			child.setVal(fv, cl.frame.val(b))
			if k := cl.frame.findParamFn(b); k != "" {
				child.paramFns[fv] = k
			}
			if c := cl.frame.findClosure(b); c != nil {
				child.closures[fv] = c
			}
		}
	} else if len(fn.FreeVars) > 0 {
		for _, fv := range fn.FreeVars {
			child.setVal(fv, mk(g.freshConst("freevar:"+fv.Name(), "Int"), "Int", fv.Type()))
		}
	}
	out, res, rexit := child.run(bi.out, bi.R)
	bi.out = out
	if rexit != "" && rexit != bi.R && (len(child.loops) > 0 || child.exitStrengthened) {
		f.exitStrengthened = true
		// the callee returns only when its loops have terminated: what follows the call is
		// reached under the callee's exit condition (which implies the condition of the call)
		bi.R = rexit
	}
	if len(res) < fn.Signature.Results().Len() {
		res = append(res, f.freshResults(fn.Signature)[len(res):]...)
	}
	return res
}

// specInline executes fn symbolically for use inside a specification (reads only).
func (f *Frame) specInline(fn *ssa.Function, args []T, cur *State) (T, bool) {
	g := f.g
	if f.depth >= g.maxInline+4 {
		return T{}, false
	}
	child := g.newFrame(fn, f)
	child.specMode = true
	for i, p := range fn.Params {
		if i < len(args) {
			a := args[i]
			child.setVal(p, a)
			child.params[p.Name()] = child.vals[p]
		}
	}
	_, res, _ := child.run(cur.clone(), "true")
	if len(res) == 0 {
		return T{}, false
	}
	return res[0], true
}

// ---------------------------------------------------------------- defers

func (f *Frame) runDefer(bi *BInfo, d deferRec) {
	c := d.call.Common()
	var argVals []ssa.Value
	if c.IsInvoke() {
		argVals = append(argVals, c.Value)
	}
	argVals = append(argVals, c.Args...)
	exec := func(b *BInfo) {
		switch fv := c.Value.(type) {
		case *ssa.Builtin:
			f.builtin(b, fv, c, d.args, nil)
			return
		case *ssa.Function:
			f.staticCall(b, fv, nil, d.args, argVals, nil)
			return
		}
		if c.IsInvoke() {
			f.invoke(b, c, d.args, nil)
			return
		}
		if cl := f.findClosure(c.Value); cl != nil {
			f.staticCall(b, cl.fn, cl, d.args, argVals, nil)
			return
		}
		if fn := f.findStaticFn(c.Value); fn != nil {
			f.staticCall(b, fn, nil, d.args, argVals, nil)
			return
		}
		// unknown function value: A-funcval (no effect on the modelled heap)
		f.g.assumeNote("A-funcval: function values called in verified code are deterministic functions of (closure, arguments) without effect on the modelled heap")
	}
	if d.guard == bi.R || d.guard == "true" {
		exec(bi)
		return
	}
	// conditional execution
	before := bi.out.clone()
	sub := &BInfo{R: sAnd(bi.R, d.guard), in: bi.out, out: bi.out.clone()}
	exec(sub)
	merged, _ := f.merge([]inEdge{{sAnd(bi.R, d.guard), sub.out}, {sAnd(bi.R, sNot(d.guard)), before}}, f.tag+":defer")
	bi.out = merged
}

// ---------------------------------------------------------------- builtins

func (f *Frame) builtin(bi *BInfo, fv *ssa.Builtin, c *ssa.CallCommon, args []T, site ssa.Value) []T {
	g := f.g
	st := bi.out
	switch fv.Name() {
	case "len":
		a := args[0]
		switch u := a.GT.Underlying().(type) {
		case *types.Slice:
			return []T{intT(slLen(a.S))}
		case *types.Map:
			card := g.mapCard(st, a)
			g.assert(sLe("0", card))
			g.cardFacts(st, a, bi.R)
			return []T{intT(sIte(sEq(a.S, "0"), "0", card))}
		case *types.Array:
			return []T{intT(fmt.Sprint(u.Len()))}
		case *types.Pointer:
			if at, ok := u.Elem().Underlying().(*types.Array); ok {
				return []T{intT(fmt.Sprint(at.Len()))}
			}
		case *types.Basic:
			g.assert(sLe("0", app("str_len", a.S)))
			return []T{intT(app("str_len", a.S))}
		}
		return []T{intT(g.freshConst("len", "Int"))}
	case "cap":
		if args[0].Sort == "Slice" {
			return []T{intT(slCap(args[0].S))}
		}
		return []T{intT(g.freshConst("cap", "Int"))}
	case "append":
		return []T{f.appendBuiltin(bi, args[0], args[1])}
	case "copy":
		dst, src := args[0], args[1]
		if src.Sort != "Slice" {
			g.note("copy from string is not modelled (havoc of destination)")
			f.havocArgs(bi, args[:1], nil)
			return []T{intT(g.freshConst("copied", "Int"))}
		}
		elem := dst.GT.Underlying().(*types.Slice).Elem()
		arr, es := g.elemsArr(elem)
		n := g.freshConst("copyn", "Int")
		g.assert(sEq(n, sIte(sLe(slLen(dst.S), slLen(src.S)), slLen(dst.S), slLen(src.S))))
		f.frameCheck(bi, arr, slBase(dst.S), "copy into "+c.Args[0].Name())
		a := g.arr(st, arr, es)
		na := g.freshConst("copy:"+arr, es)
		k := "k!c"
		inR := sAnd(sLe(slOff(dst.S), k), sLt(k, sAdd(slOff(dst.S), n)))
		srcRead := g.viewRead(sel(a, slBase(src.S)), es, slOff(src.S), sSub(k, slOff(dst.S)))
		g.assert(sForall(k, sEq(sel(na, k), sIte(inR, srcRead, sel(sel(a, slBase(dst.S)), k)))))
		g.setArr(st, arr, es, sto(a, slBase(dst.S), na))
		return []T{intT(n)}
	case "delete":
		m, k := args[0], args[1]
		{
			va, _, _, _ := g.mapArrs(m.GT.Underlying().(*types.Map))
			f.frameCheck(bi, va, m.S, "delete from map")
		}
		g.mapDelete(st, m, k.S)
		return nil
	case "min", "max":
		r := args[0]
		for _, a := range args[1:] {
			op := "<="
			if fv.Name() == "max" {
				op = ">="
			}
			r = mk(sIte(app(op, r.S, a.S), r.S, a.S), r.Sort, r.GT)
		}
		return []T{r}
	case "ssa:wrapnilchk":
		return []T{args[0]}
	case "print", "println", "close", "panic":
		return nil
	case "recover":
		return []T{mk("0", "Int", types.NewInterfaceType(nil, nil))}
	case "clear":
		f.havocArgs(bi, args, nil)
		return nil
	}
	g.note("builtin %s is not modelled", fv.Name())
	if site != nil {
		return []T{f.havocVal(site, "builtin")}
	}
	return nil
}

// appendBuiltin implements append(s, xs...) with Go's in-place / reallocate case split.
func (f *Frame) appendBuiltin(bi *BInfo, s, xs T) T {
	g := f.g
	st := bi.out
	if xs.Sort != "Slice" {
		// append([]byte, string...)
		// the appended bytes are not modelled (unconstrained), the storage effect is: with room the
		// bytes land in s's own array behind its length - a write into storage the caller may share
		// (frame obligation) -, otherwise in a new array that starts with a copy of s
		g.note("append of a string to a byte slice: the appended bytes are unconstrained, the in-place / reallocate split is modelled")
		elem := s.GT.Underlying().(*types.Slice).Elem()
		arr, es := g.elemsArr(elem)
		a := g.arr(st, arr, es)
		n := g.freshConst("strlen:append", "Int")
		g.assert(sLe("0", n))
		newLen := sAdd(slLen(s.S), n)
		room := sLe(newLen, slCap(s.S))
		fresh := g.allocRef(st, "new:append:"+f.tag)
		capF := g.freshConst("cap:append", "Int")
		g.assert(sLe(newLen, capF))
		res := g.freshConst("app:"+f.tag, "Slice")
		g.assert(sEq(res, sIte(room,
			mkSlice(slBase(s.S), slOff(s.S), newLen, slCap(s.S)),
			mkSlice(fresh, "0", newLen, capF))))
		f.frameCheckIf(bi, sAnd(room, sLt("0", n)), arr, slBase(s.S), "append of a string in place")
		k := "k!a"
		start := sAdd(slOff(s.S), slLen(s.S))
		inpl := g.freshConst("inpl:"+arr, es)
		g.assert(sForall(k, sImp(sNot(sAnd(sLe(start, k), sLt(k, sAdd(start, n)))), sEq(sel(inpl, k), sel(sel(a, slBase(s.S)), k)))))
		re := g.freshConst("realloc:"+arr, es)
		g.assert(sForall(k, sImp(sAnd(sLe("0", k), sLt(k, slLen(s.S))), sEq(sel(re, k), g.viewRead(sel(a, slBase(s.S)), es, slOff(s.S), k)))))
		g.setArr(st, arr, es, sIte(room, sto(a, slBase(s.S), inpl), sto(a, fresh, re)))
		return mk(res, "Slice", s.GT)
	}
	elem := s.GT.Underlying().(*types.Slice).Elem()
	arr, es := g.elemsArr(elem)
	a := g.arr(st, arr, es)
	n := slLen(xs.S)
	newLen := sAdd(slLen(s.S), n)
	room := sLe(newLen, slCap(s.S))
	// nothing to append: the slice is returned unchanged
	if n == "0" {
		return s
	}
	fresh := g.allocRef(st, "new:append:"+f.tag)
	capF := g.freshConst("cap:append", "Int")
	g.assert(sLe(newLen, capF))
	res := g.freshConst("app:"+f.tag, "Slice")
	g.assert(sEq(res, sIte(room,
		mkSlice(slBase(s.S), slOff(s.S), newLen, slCap(s.S)),
		mkSlice(fresh, "0", newLen, capF))))
	// in place: elements off+len .. off+len+n are overwritten with xs (memmove: read from the pre-state)
	f.frameCheckIf(bi, room, arr, slBase(s.S), "append in place")
	inpl := g.freshConst("inpl:"+arr, es)
	k := "k!a"
	start := sAdd(slOff(s.S), slLen(s.S))
	if isIntLit(n) && len(n) == 1 {
		// explicit stores for a small literal count
		cur := sel(a, slBase(s.S))
		for i := 0; i < int(n[0]-'0'); i++ {
			cur = sto(cur, sAdd(start, fmt.Sprint(i)), g.viewRead(sel(a, slBase(xs.S)), es, slOff(xs.S), fmt.Sprint(i)))
		}
		g.assert(sImp(room, sEq(inpl, cur)))
	} else {
		inR := sAnd(sLe(start, k), sLt(k, sAdd(start, n)))
		g.assert(sImp(room, sForall(k, sEq(sel(inpl, k),
			sIte(inR, g.viewRead(sel(a, slBase(xs.S)), es, slOff(xs.S), sSub(k, start)), sel(sel(a, slBase(s.S)), k))))))
	}
	if off := slOff(s.S); off != "0" {
		// view-level description of the in-place result
		sh := g.shiftFn(es)
		oi := g.freshConst("inner", es)
		g.assert(sEq(oi, sel(a, slBase(s.S))))
		lhs := sel(app(sh, inpl, off), "j!v")
		inR := sAnd(sLe(slLen(s.S), "j!v"), sLt("j!v", newLen))
		src := g.viewRead(sel(a, slBase(xs.S)), es, slOff(xs.S), sSub("j!v", slLen(s.S)))
		g.assert(sImp(room, fmt.Sprintf("(forall ((j!v Int)) (! (= %s (ite %s %s %s)) :pattern (%s)))", lhs, inR, src, sel(app(sh, oi, off), "j!v"), lhs)))
	}
	// reallocated: copy of s followed by xs
	re := g.freshConst("realloc:"+arr, es)
	pre := sForall(k, sImp(sAnd(sLe("0", k), sLt(k, slLen(s.S))), sEq(sel(re, k), g.viewRead(sel(a, slBase(s.S)), es, slOff(s.S), k))))
	var tail string
	if isIntLit(n) && len(n) == 1 {
		var eqs []string
		for i := 0; i < int(n[0]-'0'); i++ {
			eqs = append(eqs, sEq(sel(re, sAdd(slLen(s.S), fmt.Sprint(i))), g.viewRead(sel(a, slBase(xs.S)), es, slOff(xs.S), fmt.Sprint(i))))
		}
		tail = sAnd(eqs...)
	} else {
		tail = sForall(k, sImp(sAnd(sLe(slLen(s.S), k), sLt(k, newLen)), sEq(sel(re, k), g.viewRead(sel(a, slBase(xs.S)), es, slOff(xs.S), sSub(k, slLen(s.S))))))
	}
	g.assert(sImp(sNot(room), sAnd(pre, tail)))
	g.setArr(st, arr, es, sIte(room, sto(a, slBase(s.S), inpl), sto(a, fresh, re)))
	return mk(res, "Slice", s.GT)
}

func (f *Frame) frameCheckIf(bi *BInfo, cond, arr, ref, what string) {
	sub := &BInfo{R: sAnd(bi.R, cond)}
	f.frameCheck(sub, arr, ref, what)
}

// ---------------------------------------------------------------- map iteration

type mapRange struct {
	m    T
	ord  string // the (fixed, unknown) order in which this iteration produces keys: Int -> K
	it   string // iterator reference
	has0 string // key set at the start of the iteration
	str  bool
}

func (f *Frame) rangeInstr(bi *BInfo, x *ssa.Range) {
	g := f.g
	st := bi.out
	mt, ok := x.X.Type().Underlying().(*types.Map)
	if !ok {
		f.rangeIt[x] = &mapRange{str: true}
		return
	}
	m := f.val(x.X)
	it := g.allocRef(st, "iter:"+f.tag+":"+x.Name())
	_, ha, ks, _ := g.mapArrs(mt)
	hsort := fmt.Sprintf("(Array %s Bool)", ks)
	has0 := g.freshConst("keys0:"+f.tag, hsort)
	g.assert(sEq(has0, sel(g.arr(st, ha, hsort), m.S)))
	seenArr := "IterSeen:" + typeKey(mt.Key())
	g.setArr(st, seenArr, hsort, sto(g.arr(st, seenArr, hsort), it, fmt.Sprintf("((as const %s) false)", hsort)))
	g.setArr(st, "IterCnt", "Int", sto(g.arr(st, "IterCnt", "Int"), it, "0"))
	// prophecy of the iteration order: an arbitrary but fixed sequence of keys
	ord := g.freshConst("order:"+f.tag, fmt.Sprintf("(Array Int %s)", ks))
	f.rangeIt[x] = &mapRange{m: m, it: it, has0: has0, ord: ord}
	f.setVal(x, mk(it, "Int", x.Type()))
}

func (f *Frame) nextInstr(bi *BInfo, x *ssa.Next) {
	g := f.g
	st := bi.out
	mr := f.rangeIt[x.Iter]
	tt := x.Type().(*types.Tuple)
	kt, vt := tt.At(1).Type(), tt.At(2).Type()
	if mr != nil && !mr.str {
		// unused range variables have an invalid type in SSA: take the map's types
		mt := mr.m.GT.Underlying().(*types.Map)
		kt, vt = mt.Key(), mt.Elem()
	}
	ok := g.freshConst("next:ok:"+f.tag, "Bool")
	k := mk(g.freshConst("next:k:"+f.tag, g.sortOf(kt)), g.sortOf(kt), kt)
	v := mk(g.freshConst("next:v:"+f.tag, g.sortOf(vt)), g.sortOf(vt), vt)
	f.tuples[x] = []T{boolT(ok), k, v}
	if mr == nil || mr.str {
		return
	}
	mt := mr.m.GT.Underlying().(*types.Map)
	_, ha, ks, _ := g.mapArrs(mt)
	hsort := fmt.Sprintf("(Array %s Bool)", ks)
	cv, has := g.mapLookup(st, mr.m, k.S)
	seenArr := "IterSeen:" + typeKey(mt.Key())
	seen := g.arr(st, seenArr, hsort)
	cnt := g.arr(st, "IterCnt", "Int")
	g.assert(sImp(sAnd(bi.R, ok), sAnd(sNot(sEq(mr.m.S, "0")), has, sEq(v.S, cv.S), sNot(sel(sel(seen, mr.it), k.S)))))
	if w := g.wfFacts(st, v); w != "true" {
		g.assert(sImp(sAnd(bi.R, ok), w))
	}
	// exhausted: every key that was present at the start and still is has been visited
	kq := "k!n"
	curHas := sel(sel(g.arr(st, ha, hsort), mr.m.S), kq)
	g.assert(sImp(sAnd(bi.R, sNot(ok), sNot(sEq(mr.m.S, "0"))),
		sForallS(kq, ks, sImp(sAnd(sel(mr.has0, kq), curHas), sel(sel(seen, mr.it), kq)))))
	// the i-th iteration produces key ord[i]; seen(k) <=> k is among ord[0..cnt)
	g.assert(sImp(sAnd(bi.R, ok), sEq(k.S, sel(mr.ord, sel(cnt, mr.it)))))
	ka := sel(mr.ord, "i!s")
	g.assert(sImp(bi.R, "(forall ((i!s Int)) (! "+sImp(sAnd(sLe("0", "i!s"), sLt("i!s", sel(cnt, mr.it))), sel(sel(seen, mr.it), ka))+" :pattern ("+ka+")))"))
	sk := sel(sel(seen, mr.it), "k!s")
	g.assert(sImp(bi.R, "(forall ((k!s "+ks+")) (! "+sImp(sk, "(exists ((i!s Int)) (and (<= 0 i!s) (< i!s "+sel(cnt, mr.it)+") (= "+ka+" k!s)))")+" :pattern ("+sk+")))"))
	g.assert(sImp(bi.R, sLe("0", sel(cnt, mr.it))))
	g.setArr(st, seenArr, hsort, sIte(ok, sto(seen, mr.it, sto(sel(seen, mr.it), k.S, "true")), seen))
	g.setArr(st, "IterCnt", "Int", sIte(ok, sto(cnt, mr.it, sAdd(sel(cnt, mr.it), "1")), cnt))
}

// ---------------------------------------------------------------- modifies targets

func (e *SpecEnv) modTargets(x ast.Expr, text string) []modEntry {
	g := e.g
	switch x := x.(type) {
	case *ast.ParenExpr:
		return e.modTargets(x.X, text)
	case *ast.CallExpr:
		if id, ok := x.Fun.(*ast.Ident); ok {
			switch id.Name {
			case "elems":
				s := e.eval(x.Args[0])
				sl, ok := s.GT.Underlying().(*types.Slice)
				if !ok {
					specFail("elems of non-slice")
				}
				arr, es := g.elemsArr(sl.Elem())
				g.arrReg[arr] = es
				return []modEntry{{arr, slBase(s.S), text}}
			case "allelems":
				t := e.resolveType(x.Args[0])
				arr, es := g.elemsArr(t)
				g.arrReg[arr] = es
				return []modEntry{{arr, "", text}}
			case "mapof":
				m := e.eval(x.Args[0])
				mt, ok := m.GT.Underlying().(*types.Map)
				if !ok {
					specFail("mapof non-map")
				}
				va, ha, ks, vs := g.mapArrs(mt)
				g.arrReg[va] = fmt.Sprintf("(Array %s %s)", ks, vs)
				g.arrReg[ha] = fmt.Sprintf("(Array %s Bool)", ks)
				g.arrReg[cardArr(mt)] = "Int"
				return []modEntry{{va, m.S, text}, {ha, m.S, text}, {cardArr(mt), m.S, text}}
			case "fields":
				p := e.eval(x.Args[0])
				pt := derefType(p.GT)
				if pt == nil || !isStruct(pt) {
					specFail("fields(p): p must point to a struct")
				}
				var out []modEntry
				u := pt.Underlying().(*types.Struct)
				for i := 0; i < u.NumFields(); i++ {
					arr, es := g.fieldArr(pt, i)
					g.arrReg[arr] = es
					out = append(out, modEntry{arr, p.S, text})
				}
				return out
			case "captured":
				// captured(x): the variable x captured by the closure under contract
				id, ok := x.Args[0].(*ast.Ident)
				if !ok {
					specFail("captured(name)")
				}
				p, ok := e.vars["&"+id.Name]
				if !ok {
					specFail("captured(%s): not a captured variable", id.Name)
				}
				pt := derefType(p.GT)
				if pt == nil || isStruct(pt) {
					specFail("captured(%s): unsupported type", id.Name)
				}
				l := g.cellLoc(p.S, pt)
				g.arrReg[l.arr] = l.es
				return []modEntry{{l.arr, l.ref, text}}
			case "all":
				// all(T.f): field f of every object of (struct) type T
				if sel, ok := x.Args[0].(*ast.SelectorExpr); ok {
					if t, isT := e.isTypeExpr(sel.X); isT && isStruct(t) {
						l := e.fieldLocOf(mk("0", "Int", types.NewPointer(t)), sel.Sel.Name)
						if l == nil {
							specFail("modifies %s: no such field", text)
						}
						g.arrReg[l.arr] = l.es
						return []modEntry{{l.arr, "", text}}
					}
				}
				// all(x.f): field f of every object of x's type
				ents := e.modTargets(x.Args[0], text)
				for i := range ents {
					ents[i].ref = ""
				}
				return ents
			}
		}
	case *ast.SelectorExpr:
		if id, ok := x.X.(*ast.Ident); ok {
			if _, isVar := e.lookupVar(id.Name); !isVar {
				if p := e.importedPkg(id.Name); p != nil {
					if v, ok := p.Scope().Lookup(x.Sel.Name).(*types.Var); ok {
						l := g.globalLoc(shortPkg(p)+"."+v.Name(), v.Type())
						g.arrReg[l.arr] = l.es
						return []modEntry{{l.arr, "0", text}}
					}
					if gd, ok := g.cs.Ghosts[p.Path()+"::"+x.Sel.Name]; ok {
						ge := *e
						ge.pkg = p
						t := ge.resolveType(gd.Type)
						l := g.ghostLoc(p.Path(), x.Sel.Name, t)
						g.arrReg[l.arr] = l.es
						return []modEntry{{l.arr, "0", text}}
					}
				}
			}
		}
		base := e.eval(x.X)
		l := e.fieldLocOf(base, x.Sel.Name)
		if l == nil {
			specFail("modifies %s: not a heap location", text)
		}
		g.arrReg[l.arr] = l.es
		return []modEntry{{l.arr, l.ref, text}}
	case *ast.StarExpr:
		p := e.eval(x.X)
		pt := derefType(p.GT)
		if pt == nil {
			specFail("modifies *p: p is not a pointer")
		}
		if isStruct(pt) {
			var out []modEntry
			u := pt.Underlying().(*types.Struct)
			for i := 0; i < u.NumFields(); i++ {
				arr, es := g.fieldArr(pt, i)
				g.arrReg[arr] = es
				out = append(out, modEntry{arr, p.S, text})
			}
			return out
		}
		l := g.cellLoc(p.S, pt)
		g.arrReg[l.arr] = l.es
		return []modEntry{{l.arr, l.ref, text}}
	case *ast.Ident:
		if gd, ok := g.cs.Ghosts[e.pkgPath()+"::"+x.Name]; ok {
			t := e.resolveType(gd.Type)
			l := g.ghostLoc(e.pkgPath(), x.Name, t)
			g.arrReg[l.arr] = l.es
			return []modEntry{{l.arr, "0", text}}
		}
		if e.pkg != nil {
			if v, ok := e.pkg.Scope().Lookup(x.Name).(*types.Var); ok {
				l := g.globalLoc(shortPkg(e.pkg)+"."+v.Name(), v.Type())
				g.arrReg[l.arr] = l.es
				return []modEntry{{l.arr, "0", text}}
			}
		}
	}
	specFail("unsupported modifies target %s", text)
	return nil
}

// fieldLocOf returns the heap location of base.name (nil if base is a struct value).
func (e *SpecEnv) fieldLocOf(base T, name string) *Loc {
	g := e.g
	obj, path, _ := types.LookupFieldOrMethod(base.GT, true, e.pkg, name)
	if obj == nil {
		if n := namedOf(base.GT); n != nil && n.Obj().Pkg() != nil {
			obj, path, _ = types.LookupFieldOrMethod(base.GT, true, n.Obj().Pkg(), name)
		}
	}
	if v, ok := obj.(*types.Var); !ok || !v.IsField() {
		specFail("no field %s in %s", name, typeKey(base.GT))
	}
	var loc *Loc
	ct := base.GT
	ref := base.S
	for _, idx := range path {
		if loc != nil {
			ct = loc.T
		}
		if pt := derefType(ct); pt != nil && isStruct(pt) {
			if loc != nil {
				ref = g.load(e.cur, loc).S
			}
			loc = g.fieldLoc(ref, pt, idx)
		} else if isStruct(ct) && loc != nil {
			loc = g.subLoc(loc, ct, idx)
		} else {
			return nil
		}
	}
	return loc
}

// ---------------------------------------------------------------- sync primitives and hooks

func (f *Frame) findLock(l *Loc) *LockDecl {
	if l == nil || l.kind != "field" {
		return nil
	}
	for _, ld := range f.g.cs.Locks {
		want := "F:" + shortPath(ld.Pkg) + "." + ld.Type + "." + ld.Field
		if l.arr == want && len(l.path) == 0 {
			if len(ld.Props) > 0 && currentProp != "" && !contains(ld.Props, currentProp) {
				continue
			}
			return ld
		}
	}
	return nil
}

func shortPath(p string) string {
	p = strings.TrimPrefix(p, modulePath)
	return strings.TrimPrefix(p, "pkg/")
}

func (f *Frame) lockEnv(ld *LockDecl, ref string, cur, old *State) *SpecEnv {
	g := f.g
	var pkg *types.Package
	for _, sp := range g.prog.AllPackages() {
		if sp.Pkg.Path() == ld.Pkg {
			pkg = sp.Pkg
		}
	}
	env := &SpecEnv{g: g, pkg: pkg, cur: cur, old: old, vars: map[string]T{}, fr: f}
	if pkg != nil {
		if tn, ok := pkg.Scope().Lookup(ld.Type).(*types.TypeName); ok {
			env.vars[ld.Recv] = mk(ref, "Int", types.NewPointer(tn.Type()))
		}
	}
	return env
}

func (f *Frame) syncCall(bi *BInfo, fn *ssa.Function, args []T, argVals []ssa.Value) ([]T, bool) {
	g := f.g
	name := fn.String()
	switch name {
	case "(*sync.Mutex).Lock", "(*sync.RWMutex).Lock", "(*sync.RWMutex).RLock",
		"(*sync.Mutex).Unlock", "(*sync.RWMutex).Unlock", "(*sync.RWMutex).RUnlock":
	default:
		return nil, false
	}
	var l *Loc
	if len(argVals) > 0 {
		l = f.locs[argVals[0]]
	}
	st := bi.out
	acquire := strings.HasSuffix(name, "Lock") && !strings.HasSuffix(name, "Unlock")
	write := !strings.Contains(name, ".R")
	ld := f.findLock(l)
	if l != nil {
		key := l.arr + "@" + l.ref
		if acquire {
			st.held[key] = true
		} else {
			delete(st.held, key)
		}
	}
	if acquire && l != nil && l.kind == "field" && f.top.fc != nil && f.top.fc.AtLock != nil && !f.specMode {
		// lock nesting demanded by the contract of the function under verification
		fname := l.arr[strings.LastIndex(l.arr, ".")+1:]
		for i, c := range f.top.fc.AtLock[fname] {
			held := map[string]bool{}
			for k, v := range st.held {
				held[k] = v
			}
			delete(held, l.arr+"@"+l.ref) // the lock being acquired does not count
			cst := st.clone()
			cst.held = held
			env := f.specEnv(cst, f.curBlock, f.curIdx, nil, nil)
			if v, err := env.evalBool(c.Expr); err == nil {
				f.addObl("lock-order", fname+"/"+clauseLabel(c, i), bi.R, v.S, "when acquiring "+fname+": "+c.Text)
			} else {
				g.resolutionFailure(f, fmt.Sprintf("at-lock %s: %v", fname, err))
			}
		}
	}
	if ld == nil {
		return nil, true
	}
	// concurrency model (DESIGN 4.1): acquiring the lock forgets everything known about the
	// protected fields and assumes the lock invariant; releasing it must re-establish the invariant.
	if acquire {
		pre := st.clone()
		for _, p := range ld.Protects {
			env := f.lockEnv(ld, l.ref, st, pre)
			pl := env.fieldLocOf(env.vars[ld.Recv], p)
			if pl == nil {
				continue
			}
			if mt, isMap := pl.T.Underlying().(*types.Map); isMap {
				// a protected map: the map object stays, its content is whatever the others left
				mref := g.load(st, pl).S
				va, ha, ks, vs := g.mapArrs(mt)
				vsort, hsort := fmt.Sprintf("(Array %s %s)", ks, vs), fmt.Sprintf("(Array %s Bool)", ks)
				g.setArr(st, va, vsort, sto(g.arr(st, va, vsort), mref, g.freshConst("lk:mapv:"+p, vsort)))
				g.setArr(st, ha, hsort, sto(g.arr(st, ha, hsort), mref, g.freshConst("lk:maph:"+p, hsort)))
				ca := cardArr(mt)
				g.setArr(st, ca, "Int", sto(g.arr(st, ca, "Int"), mref, g.freshConst("lk:mapc:"+p, "Int")))
				continue
			}
			g.store(st, pl, g.freshConst("lk:"+p, g.sortOf(pl.T)))
			v := g.load(st, pl)
			// A-lock-fresh: what other goroutines left in the protected fields are not objects
			// allocated by the current call
			if w := g.wfValue(v, f.top.entry.next, 0); w != "true" {
				g.assert(sImp(bi.R, w))
				g.assumeNote("A-lock-fresh: values found in lock-protected fields after acquiring the lock are not objects allocated by the current call")
			}
		}
		env := f.lockEnv(ld, l.ref, st, pre)
		for _, c := range ld.Invariant {
			if v, err := env.evalBool(c.Expr); err == nil {
				g.assert(sImp(bi.R, v.S))
			} else {
				g.resolutionFailure(f, fmt.Sprintf("lock invariant %s: %v", ld.Field, err))
			}
		}
		if f.top.fc != nil && f.top.fc.Opts["old"] == "cs" && !f.specMode {
			// the contract describes the atomic effect of the critical section: old() refers to the
			// state found when the lock was acquired
			snap := st.clone()
			snap.next = f.top.entry.next
			snap.cs = nil
			st.cs = snap
		}
		for _, c := range ld.Rely {
			if v, err := env.evalBool(c.Expr); err == nil {
				g.assert(sImp(bi.R, v.S))
				g.assumeNote("rely (%s.%s): %s", ld.Type, ld.Field, c.Text)
			} else {
				g.resolutionFailure(f, fmt.Sprintf("rely %s: %v", ld.Field, err))
			}
		}
		return nil, true
	}
	if write || true {
		env := f.lockEnv(ld, l.ref, st, st)
		for i, c := range ld.Invariant {
			if v, err := env.evalBool(c.Expr); err == nil {
				f.addObl("lock-inv", ld.Field+"/"+clauseLabel(c, i), bi.R, v.S, "lock invariant at "+name+": "+c.Text)
			}
		}
	}
	return nil, true
}

func (f *Frame) lockAccess(bi *BInfo, l *Loc, write bool) {}

// Context-freshness ghost (C17): `ctxfresh` is true iff the context was observed NOT done by a
// non-blocking select and no blocking wait happened since. A blocking select clears it (the
// context may be cancelled while waiting, and choosing another ready case says nothing about
// ctx.Done()). Choosing the Done case is recorded in `ctxdone`.
const ctxFreshArr = "G:ghost:engine.ctxfresh"
const ctxDoneArr = "G:ghost:engine.ctxdone"

func isDoneChan(v ssa.Value) bool {
	c, ok := v.(*ssa.Call)
	if !ok {
		return false
	}
	cc := c.Common()
	return cc.IsInvoke() && cc.Method.Name() == "Done"
}

func (f *Frame) selectHook(bi *BInfo, x *ssa.Select, idx string) {
	g := f.g
	st := bi.out
	doneIdx := -1
	for i, s := range x.States {
		if isDoneChan(s.Chan) {
			doneIdx = i
		}
	}
	fresh := g.arr(st, ctxFreshArr, "Bool")
	done := g.arr(st, ctxDoneArr, "Bool")
	if x.Blocking {
		g.setArr(st, ctxFreshArr, "Bool", sto(fresh, "0", "false"))
	} else if doneIdx >= 0 {
		// default branch taken <=> the context was not done at this instant
		g.setArr(st, ctxFreshArr, "Bool", sto(fresh, "0", sEq(idx, "(- 1)")))
	}
	if doneIdx >= 0 {
		g.setArr(st, ctxDoneArr, "Bool", sto(done, "0", sOr(sel(done, "0"), sEq(idx, fmt.Sprint(doneIdx)))))
	}
}
func (f *Frame) sendHook(bi *BInfo, x *ssa.Send) { f.blockingHook(bi) }

// blockingHook: a channel receive, a channel send or a sleep may wait for an unbounded time, during
// which the context can be cancelled: what was learnt about the context before is stale.
// (Mutex operations are not treated as waits: critical sections of the code base are short and
// the hand-out itself takes the queue lock.)
func (f *Frame) blockingHook(bi *BInfo) {
	g := f.g
	st := bi.out
	if st == nil {
		return
	}
	fresh := g.arr(st, ctxFreshArr, "Bool")
	g.setArr(st, ctxFreshArr, "Bool", sto(fresh, "0", "false"))
}

// findParamFn: the paramspec key of a value that is (or was bound to) a function-typed parameter
// of the function under verification.
func (f *Frame) findParamFn(v ssa.Value) string {
	for fr := f; fr != nil; fr = fr.parent {
		if k, ok := fr.paramFns[v]; ok {
			return k
		}
	}
	return ""
}

// paramFuncHook: a call of a function-typed parameter that has a `func Name#param` contract
// (ghost effects of a callback handed in by the caller).
func (f *Frame) paramFuncHook(bi *BInfo, c *ssa.CallCommon, args []T) ([]T, bool) {
	k := f.findParamFn(c.Value)
	if k == "" {
		return nil, false
	}
	fc := f.g.cs.Funcs[k]
	if fc == nil {
		return nil, false
	}
	sig := c.Value.Type().Underlying().(*types.Signature)
	all := append([]T{{}}, args...)
	return f.applyContractSig(bi, fc, sig, "_callback", all, shortPath(k)), true
}

// funcValueHook: a call through a function-typed struct field that has a `func Type.field`
// contract (funcspec).
func (f *Frame) funcValueHook(bi *BInfo, c *ssa.CallCommon, fv T, args []T) ([]T, bool) {
	u, ok := c.Value.(*ssa.UnOp)
	if !ok {
		return nil, false
	}
	fa, ok := u.X.(*ssa.FieldAddr)
	if !ok {
		return nil, false
	}
	st := derefType(fa.X.Type())
	n := namedOf(st)
	if n == nil || n.Obj().Pkg() == nil {
		return nil, false
	}
	fname := st.Underlying().(*types.Struct).Field(fa.Field).Name()
	ck := n.Obj().Pkg().Path() + "::" + n.Obj().Name() + "." + fname
	fc := f.g.cs.Funcs[ck]
	if fc == nil {
		return nil, false
	}
	sig := c.Value.Type().Underlying().(*types.Signature)
	recv := f.val(fa.X)
	all := append([]T{recv}, args...)
	return f.applyContractSig(bi, fc, sig, "this", all, shortPath(ck)), true
}

// cardFacts links the cardinality of map m to its key set in the current state:
// card == 0  <=>  no key is present (instantiated for this map and state).
func (g *Gen) cardFacts(st *State, m T, guard string) {
	mt := m.GT.Underlying().(*types.Map)
	_, ha, ks, _ := g.mapArrs(mt)
	hsort := fmt.Sprintf("(Array %s Bool)", ks)
	hm := sel(g.arr(st, ha, hsort), m.S)
	card := g.mapCard(st, m)
	w := g.freshConst("cardwit", ks)
	g.assert(sImp(guard, sAnd(
		sImp(sEq(card, "0"), sForallS("k!c", ks, sNot(sel(hm, "k!c")))),
		sImp(sLt("0", card), sel(hm, w)))))
}
