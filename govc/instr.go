package main

// Semantics of the SSA instructions.

import (
	"fmt"
	"go/token"
	"go/types"
	"strings"

	"golang.org/x/tools/go/ssa"
)

func (f *Frame) instr(b *ssa.BasicBlock, bi *BInfo, idx int, ins ssa.Instruction) {
	g := f.g
	st := bi.out
	switch x := ins.(type) {
	case *ssa.DebugRef:
		return
	case *ssa.Alloc:
		pt := derefType(x.Type())
		ref := g.allocRef(st, "new:"+f.tag+":"+x.Name())
		switch u := pt.Underlying().(type) {
		case *types.Struct:
			g.storeStruct(st, ref, pt, g.zero(pt).S)
		case *types.Array:
			arr, es := g.elemsArr(u.Elem())
			a := g.arr(st, arr, es)
			g.setArr(st, arr, es, sto(a, ref, g.constArr(es, g.zero(u.Elem()).S)))
		default:
			g.store(st, g.cellLoc(ref, pt), g.zero(pt).S)
		}
		f.setVal(x, mk(ref, "Int", x.Type()))
	case *ssa.FieldAddr:
		st0 := derefType(x.X.Type())
		if l, ok := f.locs[x.X]; ok {
			f.locs[x] = g.subLoc(l, st0, x.Field)
		} else {
			ref := f.val(x.X)
			f.safety("nil", bi, sNot(sEq(ref.S, "0")), "nil dereference "+x.String())
			f.locs[x] = g.fieldLoc(ref.S, st0, x.Field)
		}
	case *ssa.IndexAddr:
		idxT := f.val(x.Index)
		switch u := x.X.Type().Underlying().(type) {
		case *types.Slice:
			s := f.val(x.X)
			f.safety("index", bi, sAnd(sLe("0", idxT.S), sLt(idxT.S, slLen(s.S))), "index in range: "+x.String())
			f.locs[x] = g.elemLoc(slBase(s.S), slOff(s.S), idxT.S, u.Elem())
		case *types.Pointer:
			at := u.Elem().Underlying().(*types.Array)
			if l, ok := f.locs[x.X]; ok {
				// array stored inside another object: element of an SMT array value
				_ = l
				g.note("indexing of an embedded array in %s is not modelled (havoc)", fnDisplay(f.fn))
				ref := g.freshConst("arrobj", "Int")
				f.locs[x] = g.elemLoc(ref, "0", idxT.S, at.Elem())
			} else {
				ref := f.val(x.X)
				f.safety("index", bi, sAnd(sLe("0", idxT.S), sLt(idxT.S, fmt.Sprint(at.Len()))), "index in range: "+x.String())
				f.locs[x] = g.elemLoc(ref.S, "0", idxT.S, at.Elem())
			}
		}
	case *ssa.UnOp:
		f.unop(bi, x)
	case *ssa.Store:
		f.storeInstr(bi, x)
		// a function-typed parameter captured by a closure lives in a cell: remember what the cell holds
		if k := f.findParamFn(x.Val); k != "" {
			if l := f.addrLoc(x.Addr); l != nil {
				f.top.cellParamFns[l.String()] = k
			}
		}
	case *ssa.BinOp:
		a, c := f.val(x.X), f.val(x.Y)
		if x.Op == token.QUO || x.Op == token.REM {
			if a.Sort == "Int" {
				f.safety("div", bi, sNot(sEq(c.S, "0")), "division by zero: "+x.String())
			}
		}
		f.setVal(x, g.binop(x.Op, a, c))
	case *ssa.Call:
		res := f.call(bi, x.Common(), x, x.Type())
		f.bindResults(x, res)
	case *ssa.MakeSlice:
		ln, cp := f.val(x.Len), f.val(x.Cap)
		elem := x.Type().Underlying().(*types.Slice).Elem()
		base := g.allocRef(st, "mkslice:"+f.tag+":"+x.Name())
		arr, es := g.elemsArr(elem)
		g.setArr(st, arr, es, sto(g.arr(st, arr, es), base, g.constArr(es, g.zero(elem).S)))
		f.safety("index", bi, sAnd(sLe("0", ln.S), sLe(ln.S, cp.S)), "make: 0 <= len <= cap")
		f.setVal(x, mk(mkSlice(base, "0", ln.S, cp.S), "Slice", x.Type()))
	case *ssa.Slice:
		f.sliceInstr(bi, x)
	case *ssa.MakeMap:
		ref := g.allocRef(st, "mkmap:"+f.tag+":"+x.Name())
		mt := x.Type().Underlying().(*types.Map)
		va, ha, ks, vs := g.mapArrs(mt)
		vsort, hsort := fmt.Sprintf("(Array %s %s)", ks, vs), fmt.Sprintf("(Array %s Bool)", ks)
		g.setArr(st, va, vsort, sto(g.arr(st, va, vsort), ref, g.constArr(vsort, g.zero(mt.Elem()).S)))
		g.setArr(st, ha, hsort, sto(g.arr(st, ha, hsort), ref, fmt.Sprintf("((as const %s) false)", hsort)))
		g.setArr(st, cardArr(mt), "Int", sto(g.arr(st, cardArr(mt), "Int"), ref, "0"))
		f.setVal(x, mk(ref, "Int", x.Type()))
	case *ssa.MapUpdate:
		m, k, v := f.val(x.Map), f.val(x.Key), f.val(x.Value)
		f.safety("mapnil", bi, sNot(sEq(m.S, "0")), "assignment to entry in nil map")
		{
			va, _, _, _ := g.mapArrs(m.GT.Underlying().(*types.Map))
			f.frameCheck(bi, va, m.S, "map update "+x.String())
		}
		g.mapStore(st, m, k.S, v.S)
	case *ssa.Lookup:
		f.lookup(bi, x)
	case *ssa.Extract:
		if tup, ok := f.tuples[x.Tuple]; ok && x.Index < len(tup) {
			f.setVal(x, tup[x.Index])
		} else {
			f.setVal(x, f.havocVal(x, "extract"))
		}
	case *ssa.MakeInterface:
		v := f.val(x.X)
		box, unbox := g.boxFns(x.X.Type())
		i := app(box, v.S)
		g.assert(sAnd(sEq(app(unbox, i), v.S), sEq(app("tagOf", i), g.typeTag(x.X.Type())), sNot(sEq(i, "0"))))
		f.setVal(x, mk(i, "Int", x.Type()))
	case *ssa.ChangeInterface:
		f.setVal(x, f.val(x.X))
	case *ssa.TypeAssert:
		f.typeAssert(bi, x)
	case *ssa.ChangeType:
		f.setVal(x, f.val(x.X))
		if c, ok := f.closures[x.X]; ok {
			f.closures[x] = c
		}
	case *ssa.Convert:
		f.convert(x)
	case *ssa.MakeClosure:
		ref := g.allocRef(st, "closure:"+f.tag+":"+x.Name())
		f.setVal(x, mk(ref, "Int", x.Type()))
		f.closures[x] = &closureVal{fn: x.Fn.(*ssa.Function), bindings: x.Bindings, frame: f}
	case *ssa.Field:
		v := f.val(x.X)
		u := x.X.Type().Underlying().(*types.Struct)
		ft := u.Field(x.Field).Type()
		f.setVal(x, mk(app(g.structAcc(x.X.Type(), x.Field), v.S), g.sortOf(ft), ft))
	case *ssa.Index:
		v, i := f.val(x.X), f.val(x.Index)
		switch u := x.X.Type().Underlying().(type) {
		case *types.Array:
			f.setVal(x, mk(sel(v.S, i.S), g.sortOf(u.Elem()), u.Elem()))
		default:
			g.declFun("str_at", []Sort{"Str", "Int"}, "Int")
			f.safety("index", bi, sAnd(sLe("0", i.S), sLt(i.S, app("str_len", v.S))), "string index in range")
			f.setVal(x, mk(app("str_at", v.S, i.S), "Int", x.Type()))
		}
	case *ssa.Range:
		f.rangeInstr(bi, x)
	case *ssa.Next:
		f.nextInstr(bi, x)
	case *ssa.Select:
		// the chosen case is unconstrained among the cases (plus default for non-blocking)
		n := len(x.States)
		idxc := g.freshConst("select:"+f.tag+":"+x.Name(), "Int")
		lo := "0"
		if !x.Blocking {
			lo = "(- 1)"
		}
		g.assert(sImp(bi.R, sAnd(sLe(lo, idxc), sLt(idxc, fmt.Sprint(n)))))
		tup := []T{intT(idxc), boolT(g.freshConst("recvok", "Bool"))}
		for _, s := range x.States {
			if s.Dir == types.RecvOnly {
				et := s.Chan.Type().Underlying().(*types.Chan).Elem()
				tup = append(tup, mk(g.freshConst("recv", g.sortOf(et)), g.sortOf(et), et))
			}
		}
		f.tuples[x] = tup
		f.selectHook(bi, x, idxc)
	case *ssa.Send:
		f.sendHook(bi, x)
	case *ssa.Go:
		g.note("go statement in %s: the spawned call is not executed in the spawner's state", fnDisplay(f.fn))
	case *ssa.Defer:
		rec := deferRec{guard: bi.R, call: x}
		c := x.Common()
		if c.IsInvoke() {
			rec.args = append(rec.args, f.val(c.Value))
		} else if _, isFn := c.Value.(*ssa.Function); !isFn {
			if _, isB := c.Value.(*ssa.Builtin); !isB {
				rec.fnv = f.val(c.Value)
			}
		}
		for _, a := range c.Args {
			if _, isLoc := f.locs[a]; isLoc {
				rec.args = append(rec.args, T{})
				continue
			}
			rec.args = append(rec.args, f.val(a))
		}
		if len(f.inLoop[b]) > 0 {
			g.note("defer inside a loop in %s is not modelled", fnDisplay(f.fn))
			return
		}
		f.defers = append(f.defers, rec)
	case *ssa.RunDefers:
		for i := len(f.defers) - 1; i >= 0; i-- {
			d := f.defers[i]
			f.runDefer(bi, d)
		}
	case *ssa.Panic:
		bi.edge = nil
	case *ssa.Return:
		var vals []T
		for _, r := range x.Results {
			vals = append(vals, f.val(r))
		}
		f.rets = append(f.rets, retRec{cond: bi.R, st: bi.out.clone(), vals: vals})
		if f == f.top && !f.specMode {
			// reachability of this return under everything assumed so far (vacuity guard)
			g.addObl(&Obligation{Name: f.oblName("cover", "return"), Kind: "cover-return", Fn: fnDisplay(f.fn), Goal: bi.R, ExpectSat: true, TimeoutS: 2,
				Pos: g.fset.Position(f.curPos), Text: "this return is reachable"})
			f.checkPost(bi, vals)
		}
	case *ssa.Jump:
		bi.edge = []string{bi.R}
		if isBackEdge(b, b.Succs[0]) {
			f.backEdge(b, b.Succs[0], bi.R, bi.out)
		}
	case *ssa.If:
		c := f.val(x.Cond)
		bi.edge = []string{sAnd(bi.R, c.S), sAnd(bi.R, sNot(c.S))}
		for si, s := range b.Succs {
			if isBackEdge(b, s) {
				f.backEdge(b, s, bi.edge[si], bi.out)
			}
		}
	case *ssa.SliceToArrayPointer, *ssa.MultiConvert:
		v := ins.(ssa.Value)
		f.setVal(v, f.havocVal(v, "unsupported"))
		g.note("%T is not modelled (havoc) in %s", ins, fnDisplay(f.fn))
	default:
		if v, ok := ins.(ssa.Value); ok {
			f.setVal(v, f.havocVal(v, "unsupported"))
		}
		g.note("instruction %T is not modelled in %s", ins, fnDisplay(f.fn))
	}
}

func (f *Frame) bindResults(x ssa.Value, res []T) {
	switch t := x.Type().(type) {
	case *types.Tuple:
		if t.Len() == 0 {
			return
		}
		for len(res) < t.Len() {
			ft := t.At(len(res)).Type()
			res = append(res, mk(f.g.freshConst("res", f.g.sortOf(ft)), f.g.sortOf(ft), ft))
		}
		f.tuples[x] = res
	default:
		if len(res) >= 1 {
			f.setVal(x, res[0])
		} else {
			f.setVal(x, f.havocVal(x, "call result"))
		}
	}
}

func (f *Frame) unop(bi *BInfo, x *ssa.UnOp) {
	g := f.g
	st := bi.out
	switch x.Op {
	case token.MUL:
		var v T
		if l := f.addrLoc(x.X); l != nil {
			f.lockAccess(bi, l, false)
			v = g.load(st, l)
			if k := f.top.cellParamFns[l.String()]; k != "" {
				f.paramFns[x] = k
			}
		} else {
			pt := derefType(x.X.Type())
			ref := f.val(x.X)
			f.safety("nil", bi, sNot(sEq(ref.S, "0")), "nil dereference "+x.String())
			v = g.loadStruct(st, ref.S, pt)
		}
		// name the loaded value: keeps terms small
		if len(v.S) > 40 {
			c := g.freshConst("ld:"+f.tag+":"+x.Name(), v.Sort)
			g.assert(sEq(c, v.S))
			v = mk(c, v.Sort, v.GT)
		}
		if w := g.wfFacts(st, v); w != "true" {
			g.assert(sImp(bi.R, w))
		}
		f.setVal(x, v)
		if c, ok := f.cellClosures[cellKey(f.addrLocKey(x.X))]; ok {
			f.closures[x] = c
		}
	case token.NOT:
		f.setVal(x, boolT(sNot(f.val(x.X).S)))
	case token.SUB:
		v := f.val(x.X)
		if v.Sort == "Real" {
			f.setVal(x, mk(app("-", v.S), "Real", x.Type()))
		} else {
			f.setVal(x, mk(app("-", v.S), "Int", x.Type()))
		}
	case token.ARROW:
		f.setVal(x, f.havocVal(x, "receive"))
		f.blockingHook(bi)
		if x.CommaOk {
			et := x.X.Type().Underlying().(*types.Chan).Elem()
			f.tuples[x] = []T{mk(g.freshConst("recv", g.sortOf(et)), g.sortOf(et), et), boolT(g.freshConst("recvok", "Bool"))}
		}
	default:
		f.setVal(x, f.havocVal(x, "unop"))
		g.note("unary %s is uninterpreted", x.Op)
	}
}

func (f *Frame) addrLocKey(v ssa.Value) string {
	if l := f.addrLoc(v); l != nil {
		return l.String()
	}
	return ""
}

func cellKey(s string) string { return s }

func (f *Frame) storeInstr(bi *BInfo, x *ssa.Store) {
	g := f.g
	st := bi.out
	if l := f.addrLoc(x.Addr); l != nil {
		v := f.val(x.Val)
		f.lockAccess(bi, l, true)
		f.frameCheck(bi, l.arr, l.ref, "store to "+l.String())
		g.store(st, l, v.S)
		// remember closures stored into local cells (var fn = func(){...})
		if c, ok := f.closures[x.Val]; ok {
			if f.cellClosures == nil {
				f.cellClosures = map[string]*closureVal{}
			}
			f.cellClosures[l.String()] = c
		}
		return
	}
	pt := derefType(x.Addr.Type())
	ref := f.val(x.Addr)
	v := f.val(x.Val)
	u := pt.Underlying().(*types.Struct)
	for i := 0; i < u.NumFields(); i++ {
		arr, _ := g.fieldArr(pt, i)
		f.frameCheck(bi, arr, ref.S, "store to *"+x.Addr.Name())
	}
	g.storeStruct(st, ref.S, pt, v.S)
}

// frameCheck: a store to (arr, ref) must be permitted by the modifies clause of the function
// under verification, or target an object allocated during this call.
func (f *Frame) frameCheck(bi *BInfo, arr, ref, what string) {
	top := f.top
	if !top.hasMod || f.specMode {
		return
	}
	if strings.HasPrefix(arr, "G:ghost:") {
		// ghost globals are listed in modifies like any other location
	}
	// syntactically fresh: reference constants created by allocRef in this run
	if strings.HasPrefix(ref, "|new:") || strings.HasPrefix(ref, "|mkslice:") || strings.HasPrefix(ref, "|mkmap:") || strings.HasPrefix(ref, "|closure:") {
		return
	}
	alts := []string{sLe(top.entry.next, ref)}
	for _, m := range top.mods {
		if m.arr == arr {
			if m.ref == "" {
				return
			}
			alts = append(alts, sEq(ref, m.ref))
		}
	}
	if strings.HasPrefix(arr, "G:") && !strings.HasPrefix(arr, "G:ghost:") {
		// globals: only listed ones
		alts = alts[1:]
		if len(alts) == 0 {
			alts = []string{"false"}
		}
	}
	f.addObl("frame", sanitizeLabel(arr), bi.R, sOr(alts...), what+" is permitted by the modifies clause")
}

func sanitizeLabel(s string) string {
	return strings.Map(func(r rune) rune {
		if r == ' ' || r == '/' {
			return '_'
		}
		return r
	}, s)
}

func (g *Gen) mapStore(st *State, m T, k, v string) {
	mt := m.GT.Underlying().(*types.Map)
	va, ha, ks, vs := g.mapArrs(mt)
	vsort, hsort := fmt.Sprintf("(Array %s %s)", ks, vs), fmt.Sprintf("(Array %s Bool)", ks)
	av, ah := g.arr(st, va, vsort), g.arr(st, ha, hsort)
	had := sel(sel(ah, m.S), k)
	card := g.arr(st, cardArr(mt), "Int")
	g.setArr(st, cardArr(mt), "Int", sto(card, m.S, sAdd(sel(card, m.S), sIte(had, "0", "1"))))
	g.setArr(st, va, vsort, sto(av, m.S, sto(sel(av, m.S), k, v)))
	g.setArr(st, ha, hsort, sto(ah, m.S, sto(sel(ah, m.S), k, "true")))
}

func (g *Gen) mapDelete(st *State, m T, k string) {
	mt := m.GT.Underlying().(*types.Map)
	va, ha, ks, vs := g.mapArrs(mt)
	vsort, hsort := fmt.Sprintf("(Array %s %s)", ks, vs), fmt.Sprintf("(Array %s Bool)", ks)
	av, ah := g.arr(st, va, vsort), g.arr(st, ha, hsort)
	had := sel(sel(ah, m.S), k)
	card := g.arr(st, cardArr(mt), "Int")
	g.setArr(st, cardArr(mt), "Int", sto(card, m.S, sSub(sel(card, m.S), sIte(had, "1", "0"))))
	g.setArr(st, va, vsort, sto(av, m.S, sto(sel(av, m.S), k, g.zero(mt.Elem()).S)))
	g.setArr(st, ha, hsort, sto(ah, m.S, sto(sel(ah, m.S), k, "false")))
}

func (f *Frame) lookup(bi *BInfo, x *ssa.Lookup) {
	g := f.g
	st := bi.out
	switch u := x.X.Type().Underlying().(type) {
	case *types.Map:
		m, k := f.val(x.X), f.val(x.Index)
		v, has := g.mapLookup(st, m, k.S)
		val := mk(sIte(has, v.S, g.zero(u.Elem()).S), v.Sort, u.Elem())
		if len(val.S) > 40 {
			c := g.freshConst("lk:"+f.tag+":"+x.Name(), val.Sort)
			g.assert(sEq(c, val.S))
			val = mk(c, val.Sort, val.GT)
		}
		if w := g.wfFacts(st, val); w != "true" {
			g.assert(sImp(bi.R, w))
		}
		if x.CommaOk {
			f.tuples[x] = []T{val, boolT(has)}
		} else {
			f.setVal(x, val)
		}
	default:
		s, i := f.val(x.X), f.val(x.Index)
		g.declFun("str_at", []Sort{"Str", "Int"}, "Int")
		f.safety("index", bi, sAnd(sLe("0", i.S), sLt(i.S, app("str_len", s.S))), "string index in range")
		f.setVal(x, mk(app("str_at", s.S, i.S), "Int", x.Type()))
	}
}

func (f *Frame) sliceInstr(bi *BInfo, x *ssa.Slice) {
	g := f.g
	var lo, hi, mx string
	if x.Low != nil {
		lo = f.val(x.Low).S
	} else {
		lo = "0"
	}
	switch u := x.X.Type().Underlying().(type) {
	case *types.Slice:
		s := f.val(x.X)
		if x.High != nil {
			hi = f.val(x.High).S
		} else {
			hi = slLen(s.S)
		}
		cp := slCap(s.S)
		if x.Max != nil {
			mx = f.val(x.Max).S
			f.safety("index", bi, sAnd(sLe("0", lo), sLe(lo, hi), sLe(hi, mx), sLe(mx, cp)), "slice bounds: "+x.String())
			cp = mx
		} else {
			f.safety("index", bi, sAnd(sLe("0", lo), sLe(lo, hi), sLe(hi, cp)), "slice bounds: "+x.String())
		}
		g.resliceLemma(u.Elem(), slOff(s.S), lo)
		f.setVal(x, mk(mkSlice(slBase(s.S), sAdd(slOff(s.S), lo), sSub(hi, lo), sSub(cp, lo)), "Slice", x.Type()))
	case *types.Pointer: // pointer to array
		at := u.Elem().Underlying().(*types.Array)
		n := fmt.Sprint(at.Len())
		ref := f.val(x.X)
		if x.High != nil {
			hi = f.val(x.High).S
		} else {
			hi = n
		}
		f.safety("index", bi, sAnd(sLe("0", lo), sLe(lo, hi), sLe(hi, n)), "slice bounds: "+x.String())
		f.setVal(x, mk(mkSlice(ref.S, lo, sSub(hi, lo), sSub(n, lo)), "Slice", x.Type()))
	default: // string
		s := f.val(x.X)
		if x.High != nil {
			hi = f.val(x.High).S
		} else {
			hi = app("str_len", s.S)
		}
		f.safety("index", bi, sAnd(sLe("0", lo), sLe(lo, hi), sLe(hi, app("str_len", s.S))), "string slice bounds: "+x.String())
		if g.strTheory {
			f.setVal(x, mk(app("str.substr", s.S, lo, sSub(hi, lo)), "Str", x.Type()))
		} else {
			g.declFun("str_sub", []Sort{"Str", "Int", "Int"}, "Str")
			f.setVal(x, mk(app("str_sub", s.S, lo, hi), "Str", x.Type()))
		}
	}
}

func (f *Frame) typeAssert(bi *BInfo, x *ssa.TypeAssert) {
	g := f.g
	v := f.val(x.X)
	var val T
	var ok string
	if types.IsInterface(x.AssertedType) {
		ok = g.implements(v.S, x.AssertedType)
		val = mk(sIte(ok, v.S, "0"), "Int", x.AssertedType)
	} else {
		box, unbox := g.boxFns(x.AssertedType)
		ok = sEq(app("tagOf", v.S), g.typeTag(x.AssertedType))
		u := app(unbox, v.S)
		g.assert(sImp(ok, sEq(app(box, u), v.S)))
		g.assert(sEq(app("tagOf", "0"), "0"))
		zero := g.zero(x.AssertedType)
		if x.CommaOk {
			val = mk(sIte(ok, u, zero.S), zero.Sort, x.AssertedType)
		} else {
			val = mk(u, zero.Sort, x.AssertedType)
		}
		if w := g.wfFacts(bi.out, val); w != "true" {
			g.assert(sImp(sAnd(bi.R, ok), w))
		}
	}
	if x.CommaOk {
		f.tuples[x] = []T{val, boolT(ok)}
	} else {
		kind := "assert"
		if extResult(x.X) {
			// the operand is what a library function without contract returned (sync.Pool.Get, a
			// decoder's interface value): nothing is known about its dynamic type, so the obligation
			// cannot be discharged whatever the code does; the verdict policy reports it as
			// undecided, not as a violation (check.go)
			kind = "assert-ext"
		}
		f.safety(kind, bi, ok, "type assertion "+x.String())
		f.setVal(x, val)
	}
}

func (f *Frame) convert(x *ssa.Convert) {
	g := f.g
	v := f.val(x.X)
	ns := g.sortOf(x.Type())
	switch {
	case ns == v.Sort:
		// integer narrowing/widening is treated mathematically (no wrap-around)
		f.setVal(x, mk(v.S, ns, x.Type()))
	case ns == "Real" && v.Sort == "Int":
		f.setVal(x, mk(toReal(v), ns, x.Type()))
	case ns == "Int" && v.Sort == "Real":
		// float -> int truncates toward zero
		f.setVal(x, mk(sIte(app(">=", v.S, "0.0"), app("to_int", v.S), app("-", app("to_int", app("-", v.S)))), ns, x.Type()))
	default:
		name := quote("conv:" + typeKey(x.X.Type()) + "->" + typeKey(x.Type()))
		g.declFun(name, []Sort{v.Sort}, ns)
		f.setVal(x, mk(app(name, v.S), ns, x.Type()))
		if ns == "Slice" {
			// []byte(s), []rune(s): a fresh slice
			c := g.freshConst("convslice", "Slice")
			base := g.allocRef(f.curState(), "new:conv")
			g.assert(sAnd(sEq(slBase(c), base), sEq(slOff(c), "0"), sLe("0", slLen(c)), sLe(slLen(c), slCap(c))))
			f.setVal(x, mk(c, "Slice", x.Type()))
		}
	}
}

func (f *Frame) curState() *State {
	// the state of the block being executed
	for _, bi := range f.binfo {
		if !bi.done && bi.out != nil {
			return bi.out
		}
	}
	return f.entry
}

// ---------------------------------------------------------------- post-conditions

func (f *Frame) checkPost(bi *BInfo, vals []T) {
	fc := f.fc
	if fc == nil {
		return
	}
	env := f.postEnv(bi.out, vals)
	f.applyGhostSets(fc, env, bi.out)
	for i, c := range fc.Ensures {
		if c.skipped() {
			continue // an obligation of another property's check
		}
		v, err := env.evalBool(c.Expr)
		if err != nil {
			f.g.resolutionFailure(f, fmt.Sprintf("ensures %s: %v", clauseLabel(c, i), err))
			continue
		}
		f.addObl("post", clauseLabel(c, i), bi.R, v.S, c.Text)
	}
}

func (f *Frame) postEnv(st *State, vals []T) *SpecEnv {
	env := f.specEnv(st, nil, 0, nil, nil)
	env.result = vals
	// named results
	if sig := f.fn.Signature; sig != nil {
		for i := 0; i < sig.Results().Len() && i < len(vals); i++ {
			if n := sig.Results().At(i).Name(); n != "" && n != "_" {
				env.vars[n] = vals[i]
			}
		}
	}
	f.evalLets(env)
	return env
}

func (f *Frame) evalLets(env *SpecEnv) {
	if f.fc == nil {
		return
	}
	for _, l := range f.fc.Lets {
		v, err := env.evalAny(l.Expr)
		if err != nil {
			f.g.resolutionFailure(f, fmt.Sprintf("let %s: %v", l.Name, err))
			continue
		}
		env.vars[l.Name] = v
	}
}

// applyGhostSets executes the ghost assignments of a contract (`ghostset g := e`) in state st;
// e is evaluated in env (the state before the assignments).
func (f *Frame) applyGhostSets(fc *FuncContract, env *SpecEnv, st *State) {
	g := f.g
	type upd struct {
		l *Loc
		v string
	}
	var ups []upd
	for _, gs := range fc.GhostSets {
		v, err := env.evalAny(gs.Expr)
		if err != nil {
			g.resolutionFailure(f, fmt.Sprintf("ghostset %s: %v", gs.Name, err))
			continue
		}
		lhs, idxText := gs.Name, ""
		if i := strings.Index(lhs, "["); i >= 0 && strings.HasSuffix(lhs, "]") {
			// ghost map update: g[k] := e (all right-hand sides and indices read the same state)
			lhs, idxText = strings.TrimSpace(gs.Name[:i]), gs.Name[i+1:len(gs.Name)-1]
		}
		gpkg, gname := env.pkgPath(), lhs
		genv := env
		if i := strings.Index(lhs, "."); i >= 0 {
			// ghost of another package: <pkgname>.<ghost>
			if p := env.importedPkg(lhs[:i]); p != nil {
				gpkg, gname = p.Path(), lhs[i+1:]
				ge := *env
				ge.pkg = p
				genv = &ge
			}
		}
		gd, ok := g.cs.Ghosts[gpkg+"::"+gname]
		if !ok {
			g.resolutionFailure(f, fmt.Sprintf("ghostset %s: not a ghost of %s", gs.Name, gpkg))
			continue
		}
		t := genv.resolveType(gd.Type)
		loc := g.ghostLoc(gpkg, gname, t)
		if idxText != "" {
			ie, err := parseSpecExpr(idxText)
			if err != nil {
				g.resolutionFailure(f, fmt.Sprintf("ghostset %s: %v", gs.Name, err))
				continue
			}
			iv, err := env.evalAny(ie)
			if err != nil {
				g.resolutionFailure(f, fmt.Sprintf("ghostset %s: %v", gs.Name, err))
				continue
			}
			ups = append(ups, upd{loc, sto(g.load(env.cur, loc).S, iv.S, v.S)})
			continue
		}
		ups = append(ups, upd{loc, v.S})
	}
	for _, u := range ups {
		g.store(st, u.l, u.v)
	}
}

// extResult: v is the result (or one of the results) of a call to a function outside the
// repository (no body in the program), possibly through an interface method of such a package.
func extResult(v ssa.Value) bool {
	if e, ok := v.(*ssa.Extract); ok {
		v = e.Tuple
	}
	c, ok := v.(*ssa.Call)
	if !ok {
		return false
	}
	callee := c.Call.StaticCallee()
	if callee == nil {
		return false
	}
	return callee.Blocks == nil
}
