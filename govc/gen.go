package main

// Gen: global state of one verification run of one function under contract:
// declarations, assumptions, obligations, sorts, heap arrays.

import (
	"sync"
	"fmt"
	"regexp"
	"go/token"
	"go/types"
	"sort"
	"strings"

	"golang.org/x/tools/go/ssa"
)

const modulePath = "github.com/flant/shell-operator/"

type Obligation struct {
	Prop      string // property id(s) are attached by the driver
	Name      string // <pkg>.<func>/<kind>[/<label>]
	Kind      string
	Fn        string
	Label     string
	NAsserts  int    // number of assumptions (prefix of Gen.asserts) visible to this obligation
	Hyp       string // extra hypothesis
	Goal      string
	ExpectSat bool // cover obligations
	Pos       token.Position
	Text      string // human readable description (spec text or instruction)

	TimeoutS int // per-obligation solver limit (0 = default)
	Block    *ssa.BasicBlock // block of the function under verification at which it arises

	// filled by the solver stage
	Result  string // unsat | sat | unknown | timeout | error
	Backend string
	Ms      int64
	Model   string
	File    string
}

type Gen struct {
	prog *ssa.Program
	cs   *Contracts
	fset *token.FileSet

	strTheory bool
	// wfAllocatedOnly (`opt wf=allocated`): struct cells are assumed well-formed only at allocated
	// references. Needed where a callee returns a fresh object that points to an object the
	// caller allocated after the assumption point (loop head / entry); the default (all cells)
	// is contradictory there, which the reachability covers report.
	wfAllocatedOnly bool

	decls    []string
	declared map[string]bool
	dtDecls  []string
	dtDone   map[string]Sort
	asserts  []string
	obls     []*Obligation
	strLits  map[string]string
	freshN   int
	notes    map[string]bool // abstraction notes (deduplicated)
	assumes  map[string]bool // assumptions used (trusted contracts, pure methods, ...)
	tags     map[string]int  // dynamic type tags
	tagTypes []types.Type
	boxDecl  map[string]bool
	topFn    string
	oblNames map[string]int
	maxInline int
	arrReg    map[string]Sort // every heap array touched so far -> element sort
	epochN    int
	axiomDone map[string]bool
	axiomLog  []string
	resFail   []string // contract-resolution failures
	axioms    []string // global facts (never retracted): well-formedness of entry heap arrays
	arrInfo   map[string]*arrInfo
	epochBound map[int]string
	readLog    map[string]bool
	specReadCache map[*Pred][]string
	inSpecReads   map[*Pred]bool
	implIfaces    map[string]types.Type
	boundSorts    map[string]Sort
	assertOrigin  []*ssa.BasicBlock
	curTopBlock   *ssa.BasicBlock
	globalMode    int
	reachCache    map[*ssa.BasicBlock]map[*ssa.BasicBlock]bool
	reachMu       sync.Mutex
	degraded      []string // reasons why the contract no longer fits the function's structure
}

func (g *Gen) degrade(format string, a ...interface{}) {
	s := fmt.Sprintf(format, a...)
	for _, x := range g.degraded {
		if x == s {
			return
		}
	}
	g.degraded = append(g.degraded, s)
}

type arrInfo struct {
	vt      types.Type // Go type of the stored values
	levels  int        // 1: A[ref]; 2: A[ref][key]
	keySort Sort
}

func newGen(prog *ssa.Program, cs *Contracts, fset *token.FileSet) *Gen {
	g := &Gen{prog: prog, cs: cs, fset: fset,
		declared: map[string]bool{}, dtDone: map[string]Sort{}, strLits: map[string]string{},
		notes: map[string]bool{}, assumes: map[string]bool{}, tags: map[string]int{}, boxDecl: map[string]bool{},
		oblNames: map[string]int{}, maxInline: 8, arrReg: map[string]Sort{}, axiomDone: map[string]bool{},
		arrInfo: map[string]*arrInfo{}, epochBound: map[int]string{0: "next@0"}, specReadCache: map[*Pred][]string{}, inSpecReads: map[*Pred]bool{}}
	return g
}

func (g *Gen) note(format string, a ...interface{}) { g.notes[fmt.Sprintf(format, a...)] = true }
func (g *Gen) assumeNote(format string, a ...interface{}) {
	g.assumes[fmt.Sprintf(format, a...)] = true
}

func (g *Gen) fresh(prefix string) string {
	g.freshN++
	return quote(fmt.Sprintf("%s!%d", prefix, g.freshN))
}

func (g *Gen) declConst(name string, sort Sort) {
	if g.declared[name] {
		return
	}
	g.declared[name] = true
	g.decls = append(g.decls, fmt.Sprintf("(declare-fun %s () %s)", name, sort))
}

func (g *Gen) declFun(name string, args []Sort, res Sort) {
	if g.declared[name] {
		return
	}
	g.declared[name] = true
	g.decls = append(g.decls, fmt.Sprintf("(declare-fun %s (%s) %s)", name, strings.Join(args, " "), res))
}

func (g *Gen) freshConst(prefix string, sort Sort) string {
	n := g.fresh(prefix)
	g.declConst(n, sort)
	return n
}

func (g *Gen) assert(s string) {
	if s == "true" {
		return
	}
	g.asserts = append(g.asserts, s)
	// origin: the block of the function under verification that was being executed; facts
	// emitted once for the whole function (axiom instances, lemmas, type facts) have none
	if g.globalMode > 0 {
		g.assertOrigin = append(g.assertOrigin, nil)
	} else {
		g.assertOrigin = append(g.assertOrigin, g.curTopBlock)
	}
}

// declareEntriesPair: a pair sort (values array, presence array) used by the specification
// builtin entries(m); equality of pairs is equality of both components.
func (g *Gen) declareEntriesPair(vsort, hsort Sort) {
	name := quote("Entries:" + string(vsort))
	if g.declared[name] {
		return
	}
	g.declared[name] = true
	ctor := quote("entries:" + string(vsort))
	g.dtDecls = append(g.dtDecls, fmt.Sprintf("(declare-datatypes ((%s 0)) (((%s (%s %s) (%s %s)))))", name, ctor, quote("ev:"+string(vsort)), vsort, quote("eh:"+string(vsort)), hsort))
}

// sortedArrNames: the registered heap arrays in a fixed order.
func (g *Gen) sortedArrNames() []string {
	var ks []string
	for k := range g.arrReg {
		ks = append(ks, k)
	}
	sort.Strings(ks)
	return ks
}

// reaches: control can flow from block a to block b (back edges included).
func (g *Gen) reaches(a, b *ssa.BasicBlock) bool {
	if a == b {
		return true
	}
	g.reachMu.Lock()
	defer g.reachMu.Unlock()
	if g.reachCache == nil {
		g.reachCache = map[*ssa.BasicBlock]map[*ssa.BasicBlock]bool{}
	}
	m, ok := g.reachCache[a]
	if !ok {
		m = map[*ssa.BasicBlock]bool{}
		stack := []*ssa.BasicBlock{a}
		for len(stack) > 0 {
			x := stack[len(stack)-1]
			stack = stack[:len(stack)-1]
			for _, sc := range x.Succs {
				if !m[sc] {
					m[sc] = true
					stack = append(stack, sc)
				}
			}
		}
		g.reachCache[a] = m
	}
	return m[b]
}

func (g *Gen) addObl(o *Obligation) {
	o.NAsserts = len(g.asserts)
	o.Block = g.curTopBlock
	// unique names: append #n when the same name is generated again
	base := o.Name
	g.oblNames[base]++
	if n := g.oblNames[base]; n > 1 {
		o.Name = fmt.Sprintf("%s#%d", base, n)
	}
	g.obls = append(g.obls, o)
}

// ---------------------------------------------------------------- types and sorts

func shortPkg(p *types.Package) string {
	if p == nil {
		return ""
	}
	path := p.Path()
	path = strings.TrimPrefix(path, modulePath)
	path = strings.TrimPrefix(path, "pkg/")
	return path
}

var anyRe = regexp.MustCompile(`\bany\b`)

func typeKey(t types.Type) string {
	s := types.TypeString(t, func(p *types.Package) string { return shortPkg(p) })
	// `any` and `interface{}` are the same type
	return anyRe.ReplaceAllString(s, "interface{}")
}

func (g *Gen) sortOf(t types.Type) Sort {
	if t == nil {
		return "Int"
	}
	switch u := t.Underlying().(type) {
	case *types.Basic:
		info := u.Info()
		switch {
		case info&types.IsBoolean != 0:
			return "Bool"
		case info&types.IsInteger != 0:
			return "Int"
		case info&types.IsFloat != 0:
			return "Real"
		case info&types.IsString != 0:
			return "Str"
		}
		return "Int"
	case *types.Slice:
		return "Slice"
	case *types.Struct:
		return g.structSort(t, u)
	case *types.Array:
		return "(Array Int " + g.sortOf(u.Elem()) + ")"
	case *types.Tuple:
		return "Int"
	}
	return "Int" // pointers, maps, chans, funcs, interfaces: references
}

func (g *Gen) structSort(t types.Type, u *types.Struct) Sort {
	key := typeKey(t)
	if s, ok := g.dtDone[key]; ok {
		return s
	}
	name := quote("S:" + key)
	g.dtDone[key] = name // (recursion only through references, which are Int)
	var fields []string
	for i := 0; i < u.NumFields(); i++ {
		f := u.Field(i)
		fields = append(fields, fmt.Sprintf("(%s %s)", g.structAcc(t, i), g.sortOf(f.Type())))
	}
	if len(fields) == 0 {
		fields = append(fields, fmt.Sprintf("(%s Int)", quote("S:"+key+".!unit")))
	}
	g.dtDecls = append(g.dtDecls, fmt.Sprintf("(declare-datatypes ((%s 0)) (((%s %s))))", name, quote("mk:"+key), strings.Join(fields, " ")))
	return name
}

func (g *Gen) structAcc(t types.Type, i int) string {
	u := t.Underlying().(*types.Struct)
	name := u.Field(i).Name()
	if name == "_" {
		// several blank fields may occur in one struct: accessor names must differ
		name = fmt.Sprintf("_%d", i)
	}
	return quote("S:" + typeKey(t) + "." + name)
}

func (g *Gen) structMk(t types.Type, fields []string) string {
	g.sortOf(t)
	if len(fields) == 0 {
		fields = []string{"0"}
	}
	return app(quote("mk:"+typeKey(t)), fields...)
}

func (g *Gen) zero(t types.Type) T {
	sort := g.sortOf(t)
	switch u := t.Underlying().(type) {
	case *types.Basic:
		switch sort {
		case "Bool":
			return mk("false", sort, t)
		case "Real":
			return mk("0.0", sort, t)
		case "Str":
			return mk(g.strLit(""), sort, t)
		}
		return mk("0", sort, t)
	case *types.Slice:
		return mk("(mk-slice 0 0 0 0)", sort, t)
	case *types.Struct:
		var fs []string
		for i := 0; i < u.NumFields(); i++ {
			fs = append(fs, g.zero(u.Field(i).Type()).S)
		}
		return mk(g.structMk(t, fs), sort, t)
	case *types.Array:
		return mk(g.constArr(sort, g.zero(u.Elem()).S), sort, t)
	}
	return mk("0", sort, t)
}

func (g *Gen) strLit(s string) string {
	if g.strTheory {
		var b strings.Builder
		b.WriteByte('"')
		for _, c := range s {
			switch {
			case c == '"':
				b.WriteString(`""`)
			case c < 32 || c > 126 || c == '\\':
				fmt.Fprintf(&b, `\u{%x}`, c)
			default:
				b.WriteRune(c)
			}
		}
		b.WriteByte('"')
		return b.String()
	}
	if n, ok := g.strLits[s]; ok {
		return n
	}
	n := quote(fmt.Sprintf("str:%d:%s", len(g.strLits), sanitizeLit(s)))
	g.strLits[s] = n
	g.declConst(n, "Str")
	return n
}

func sanitizeLit(s string) string {
	var b strings.Builder
	for i, c := range s {
		if i > 24 {
			break
		}
		if c >= 'a' && c <= 'z' || c >= 'A' && c <= 'Z' || c >= '0' && c <= '9' || c == '_' || c == '-' || c == '.' {
			b.WriteRune(c)
		} else {
			b.WriteByte('_')
		}
	}
	return b.String()
}

// typeTag returns the integer tag of a dynamic (non-interface) type.
func (g *Gen) typeTag(t types.Type) string {
	k := typeKey(t)
	if n, ok := g.tags[k]; ok {
		return fmt.Sprint(n)
	}
	n := len(g.tags) + 1
	g.tags[k] = n
	g.tagTypes = append(g.tagTypes, t)
	var inames []string
	for name := range g.implIfaces {
		inames = append(inames, name)
	}
	sort.Strings(inames)
	for _, name := range inames {
		g.implFact(name, g.implIfaces[name], t, n)
	}
	return fmt.Sprint(n)
}

// implFn: "the dynamic type with this tag implements interface it" as an uninterpreted predicate
// on type tags; decided for every concrete type whose tag is known to the logic.
func (g *Gen) implFn(it types.Type) string {
	name := quote("impl:" + typeKey(it))
	if g.implIfaces == nil {
		g.implIfaces = map[string]types.Type{}
	}
	if _, ok := g.implIfaces[name]; !ok {
		g.implIfaces[name] = it
		g.declFun(name, []Sort{"Int"}, "Bool")
		for i, t := range g.tagTypes {
			g.implFact(name, it, t, i+1)
		}
	}
	return name
}

func (g *Gen) implFact(name string, it, t types.Type, tag int) {
	g.globalMode++
	defer func() { g.globalMode-- }()
	iface, ok := it.Underlying().(*types.Interface)
	if !ok || types.IsInterface(t) {
		return
	}
	if types.Implements(t, iface) {
		g.assert(app(name, fmt.Sprint(tag)))
	} else {
		g.assert(sNot(app(name, fmt.Sprint(tag))))
	}
}

// implements: v is non-nil and its dynamic type implements it.
func (g *Gen) implements(v string, it types.Type) string {
	if iface, ok := it.Underlying().(*types.Interface); ok && iface.Empty() {
		return sNot(sEq(v, "0"))
	}
	return sAnd(sNot(sEq(v, "0")), app(g.implFn(it), app("tagOf", v)))
}

// box / unbox functions for interface values
func (g *Gen) boxFns(t types.Type) (box, unbox string) {
	k := typeKey(t)
	box, unbox = quote("box:"+k), quote("unbox:"+k)
	if !g.boxDecl[k] {
		g.boxDecl[k] = true
		s := g.sortOf(t)
		g.declFun(box, []Sort{s}, "Int")
		g.declFun(unbox, []Sort{"Int"}, s)
	}
	return
}

// ---------------------------------------------------------------- heap arrays

// Heap array names. All are SMT arrays indexed by reference (Int).
func (g *Gen) fieldArr(structT types.Type, field int) (name string, elemSort Sort) {
	u := structT.Underlying().(*types.Struct)
	name = "F:" + typeKey(structT) + "." + u.Field(field).Name()
	if g.arrInfo[name] == nil {
		g.arrInfo[name] = &arrInfo{vt: u.Field(field).Type(), levels: 1}
	}
	return name, g.sortOf(u.Field(field).Type())
}
func (g *Gen) cellArr(t types.Type) (string, Sort) {
	name := "Cell:" + typeKey(t)
	if g.arrInfo[name] == nil {
		g.arrInfo[name] = &arrInfo{vt: t, levels: 1}
	}
	return name, g.sortOf(t)
}
func (g *Gen) elemsArr(elem types.Type) (string, Sort) {
	name := "Elems:" + typeKey(elem)
	if g.arrInfo[name] == nil {
		g.arrInfo[name] = &arrInfo{vt: elem, levels: 2, keySort: "Int"}
	}
	return name, "(Array Int " + g.sortOf(elem) + ")"
}
func (g *Gen) mapArrs(m *types.Map) (val, has string, ks, vs Sort) {
	k := typeKey(m.Key()) + "->" + typeKey(m.Elem())
	if g.arrInfo["MapV:"+k] == nil {
		g.arrInfo["MapV:"+k] = &arrInfo{vt: m.Elem(), levels: 2, keySort: g.sortOf(m.Key())}
	}
	return "MapV:" + k, "MapH:" + k, g.sortOf(m.Key()), g.sortOf(m.Elem())
}

// wfAxiom: every value stored in heap array version `term` is well-formed w.r.t. the
// allocation bound (references are allocated, slices have sane bounds).
func (g *Gen) wfAxiom(name, term, bound string) string {
	ai := g.arrInfo[name]
	if ai == nil {
		return ""
	}
	var v string
	if ai.levels == 1 {
		v = sel(term, "r!w")
	} else {
		v = sel(sel(term, "r!w"), "k!w")
	}
	w := g.wfValue(mk(v, g.sortOf(ai.vt), ai.vt), bound, 0)
	if w == "true" {
		return ""
	}
	// only cells of allocated objects: what sits at a reference that is not allocated yet is the
	// initial content of a future object (a callee may return a fresh object that points to
	// something allocated after this point)
	if g.wfAllocatedOnly && strings.HasPrefix(name, "F:") {
		w = "(=> (< r!w " + bound + ") " + w + ")"
	}
	if ai.levels == 1 {
		return "(forall ((r!w Int)) (! " + w + " :pattern (" + v + ")))"
	}
	return "(forall ((r!w Int) (k!w " + ai.keySort + ")) (! " + w + " :pattern (" + v + ")))"
}

func (g *Gen) wfValue(v T, bound string, depth int) string {
	if v.GT == nil || depth > 3 {
		return "true"
	}
	switch u := v.GT.Underlying().(type) {
	case *types.Slice:
		return sAnd(sLe("0", slOff(v.S)), sLe("0", slLen(v.S)), sLe(slLen(v.S), slCap(v.S)),
			sLe("0", slBase(v.S)), sLt(slBase(v.S), bound),
			sImp(sEq(slBase(v.S), "0"), sEq(slCap(v.S), "0")))
	case *types.Pointer, *types.Map, *types.Chan:
		return sAnd(sLe("0", v.S), sLt(v.S, bound))
	case *types.Struct:
		var parts []string
		for i := 0; i < u.NumFields(); i++ {
			ft := u.Field(i).Type()
			parts = append(parts, g.wfValue(mk(app(g.structAcc(v.GT, i), v.S), g.sortOf(ft), ft), bound, depth+1))
		}
		return sAnd(parts...)
	case *types.Basic:
		if v.Sort == "Int" && u.Info()&types.IsUnsigned != 0 {
			return sLe("0", v.S)
		}
	}
	return "true"
}

type State struct {
	heap  map[string]string // heap array name -> current SMT term
	sorts map[string]Sort   // (unused; kept for debugging)
	next  string            // allocation counter
	held  map[string]bool   // symbolic lock set: "<arr>@<ref term>"
	epoch int               // arrays absent from heap have the version <name>@<epoch>
	cs    *State            // `opt old=cs`: the state found at the latest lock acquisition on this path (nil: function entry)
}

func (s *State) clone() *State {
	n := &State{heap: make(map[string]string, len(s.heap)), sorts: s.sorts, next: s.next, held: map[string]bool{}, epoch: s.epoch, cs: s.cs}
	for k, v := range s.heap {
		n.heap[k] = v
	}
	for k, v := range s.held {
		n.held[k] = v
	}
	return n
}

// arr returns the current version of heap array name (declaring the entry version on demand).
func (g *Gen) arr(st *State, name string, elemSort Sort) string {
	if elemSort == "" {
		elemSort = g.arrReg[name]
	}
	g.arrReg[name] = elemSort
	if g.readLog != nil {
		g.readLog[name] = true
	}
	if v, ok := st.heap[name]; ok {
		return v
	}
	n := quote(fmt.Sprintf("%s@%d", name, st.epoch))
	if !g.declared[n] {
		g.declConst(n, "(Array Int "+elemSort+")")
		if b, ok := g.epochBound[st.epoch]; ok {
			if ax := g.wfAxiom(name, n, b); ax != "" {
				g.axioms = append(g.axioms, ax)
			}
		}
	}
	return n
}

// setArr installs a new version of a heap array; long terms are named to keep the VC a DAG.
func (g *Gen) setArr(st *State, name string, elemSort Sort, v string) {
	g.arrReg[name] = elemSort
	if len(v) > 80 {
		c := g.freshConst(name+"!v", "(Array Int "+elemSort+")")
		g.assert(sEq(c, v))
		v = c
	}
	st.heap[name] = v
}

// havocArr installs a fresh, unconstrained (but well-formed) version of a heap array.
func (g *Gen) havocArr(st *State, name string, hint string) string {
	es := g.arrReg[name]
	c := g.freshConst(name+"@"+hint, "(Array Int "+es+")")
	if ax := g.wfAxiom(name, c, st.next); ax != "" {
		g.assert(ax)
	}
	st.heap[name] = c
	return c
}

type snapshot struct {
	nAsserts int
	nAxioms  int
	nObls    int
}

func (g *Gen) snapshot() snapshot { return snapshot{len(g.asserts), len(g.axiomLog), len(g.obls)} }
func (g *Gen) restore(s snapshot) {
	g.asserts = g.asserts[:s.nAsserts]
	g.assertOrigin = g.assertOrigin[:s.nAsserts]
	for _, k := range g.axiomLog[s.nAxioms:] {
		delete(g.axiomDone, k)
	}
	g.axiomLog = g.axiomLog[:s.nAxioms]
	g.obls = g.obls[:s.nObls]
}

func (g *Gen) resolutionFailure(f *Frame, msg string) {
	s := fnDisplay(f.top.fn) + ": " + msg
	for _, x := range g.resFail {
		if x == s {
			return
		}
	}
	g.resFail = append(g.resFail, s)
}

func sortedKeys(m map[string]string) []string {
	var ks []string
	for k := range m {
		ks = append(ks, k)
	}
	sort.Strings(ks)
	return ks
}

// ---------------------------------------------------------------- SMT file

func (g *Gen) prelude() string {
	var b strings.Builder
	b.WriteString("(set-option :produce-models true)\n(set-logic ALL)\n")
	if g.strTheory {
		b.WriteString("(define-sort Str () String)\n")
		b.WriteString("(define-fun str_concat ((a Str) (b Str)) Str (str.++ a b))\n")
		b.WriteString("(define-fun str_len ((a Str)) Int (str.len a))\n")
		b.WriteString("(define-fun str_lt ((a Str) (b Str)) Bool (str.< a b))\n")
	} else {
		b.WriteString("(declare-sort Str 0)\n")
		b.WriteString("(declare-fun str_concat (Str Str) Str)\n")
		b.WriteString("(declare-fun str_len (Str) Int)\n")
		b.WriteString("(declare-fun str_lt (Str Str) Bool)\n")
	}
	b.WriteString("(declare-datatypes ((Slice 0)) (((mk-slice (s-base Int) (s-off Int) (s-len Int) (s-cap Int)))))\n")
	b.WriteString("(declare-fun tagOf (Int) Int)\n")
	b.WriteString("(define-fun godiv ((a Int) (b Int)) Int (ite (>= a 0) (ite (> b 0) (div a b) (- (div a (- b)))) (ite (> b 0) (- (div (- a) b)) (div (- a) (- b)))))\n")
	b.WriteString("(define-fun gomod ((a Int) (b Int)) Int (- a (* b (godiv a b))))\n")
	return b.String()
}

func (g *Gen) smtFile(o *Obligation) string {
	var b strings.Builder
	b.WriteString("; obligation " + o.Name + "\n")
	b.WriteString(g.prelude())
	for _, d := range g.dtDecls {
		b.WriteString(d + "\n")
	}
	for _, d := range g.decls {
		b.WriteString(d + "\n")
	}
	if !g.strTheory && len(g.strLits) > 1 {
		var ls []string
		for _, n := range g.strLits {
			ls = append(ls, n)
		}
		sort.Strings(ls)
		b.WriteString("(assert (distinct " + strings.Join(ls, " ") + "))\n")
	}
	if !o.ExpectSat {
		for _, a := range g.axioms {
			b.WriteString("(assert " + a + ")\n")
		}
	}
	for i := 0; i < o.NAsserts && i < len(g.asserts); i++ {
		// facts established while executing a block that cannot reach the obligation's block are
		// about other paths: leaving hypotheses out is sound and keeps the queries small
		if og := g.assertOrigin[i]; og != nil && o.Block != nil && !g.reaches(og, o.Block) {
			continue
		}
		b.WriteString("(assert " + g.asserts[i] + ")\n")
	}
	if o.Hyp != "" && o.Hyp != "true" {
		b.WriteString("(assert " + o.Hyp + ")\n")
	}
	if o.ExpectSat {
		b.WriteString("(assert " + o.Goal + ")\n")
	} else {
		b.WriteString("(assert " + sNot(o.Goal) + ")\n")
	}
	b.WriteString("(check-sat)\n")
	return b.String()
}

// constArr: the array of sort `sort` holding `val` everywhere. cvc5 accepts `as const` only
// with a value; for values that mention uninterpreted constants (string literals of the
// uninterpreted string sort) a declared array with a defining axiom is used instead.
func (g *Gen) constArr(sort Sort, val string) string {
	if !strings.Contains(val, "str:") {
		return fmt.Sprintf("((as const %s) %s)", sort, val)
	}
	name := quote("constarr:" + sort + ":" + val)
	if !g.declared[name] {
		g.declConst(name, sort)
		// index sort is the first component of (Array I V)
		idx := "Int"
		if strings.HasPrefix(sort, "(Array ") {
			parts := splitTop(sort[len("(Array ") : len(sort)-1])
			if len(parts) == 2 {
				idx = parts[0]
			}
		}
		sl := sel(name, "i!k")
		g.axioms = append(g.axioms, fmt.Sprintf("(forall ((i!k %s)) (! (= %s %s) :pattern (%s)))", idx, sl, val, sl))
	}
	return name
}
