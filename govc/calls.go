package main

// Calls: builtins, contracts, inlining, external functions, function values, defers.

import (
	"fmt"
	"go/types"
	"sort"
	"strings"

	"golang.org/x/tools/go/ssa"
)

// call handles a call; it returns the result values (one per result of the signature).
func (f *Frame) call(bi *BInfo, c *ssa.CallCommon, site ssa.Value, resT types.Type) []T {
	// evaluate arguments (addresses stay locations)
	var args []T
	var argVals []ssa.Value
	if c.IsInvoke() {
		args = append(args, f.val(c.Value))
		argVals = append(argVals, c.Value)
	}
	for _, a := range c.Args {
		argVals = append(argVals, a)
		if _, isLoc := f.locs[a]; isLoc {
			args = append(args, T{GT: a.Type()})
			continue
		}
		args = append(args, f.val(a))
	}
	if c.IsInvoke() {
		return f.invoke(bi, c, args, resT)
	}
	switch fv := c.Value.(type) {
	case *ssa.Builtin:
		return f.builtin(bi, fv, c, args, site)
	case *ssa.Function:
		if isWaitingExtern(fv) {
			f.blockingHook(bi)
		}
		return f.staticCall(bi, fv, nil, args, argVals, resT)
	case *ssa.MakeClosure:
		if cl, ok := f.closures[fv]; ok {
			return f.staticCall(bi, cl.fn, cl, args, argVals, resT)
		}
	}
	// dynamic call of a function value
	if cl := f.findClosure(c.Value); cl != nil {
		return f.staticCall(bi, cl.fn, cl, args, argVals, resT)
	}
	if fn := f.findStaticFn(c.Value); fn != nil {
		return f.staticCall(bi, fn, nil, args, argVals, resT)
	}
	fvT := f.val(c.Value)
	sig := c.Value.Type().Underlying().(*types.Signature)
	// funcspec hook (ghost effects of known function-typed fields)
	if res, ok := f.funcValueHook(bi, c, fvT, args); ok {
		return res
	}
	if res, ok := f.paramFuncHook(bi, c, args); ok {
		return res
	}
	return f.uninterpResults(fvT.S, sig, args)
}

func (f *Frame) uninterpResults(fv string, sig *types.Signature, args []T) []T {
	g := f.g
	n := sig.Results().Len()
	if n == 0 {
		g.assumeNote("A-funcval: function values called in verified code are deterministic functions of (closure, arguments) without effect on the modelled heap")
		return nil
	}
	var clean []T
	for _, a := range args {
		if a.S == "" {
			continue
		}
		clean = append(clean, a)
	}
	first := g.applyFuncValue(fv, sig, clean)
	res := []T{first}
	for i := 1; i < n; i++ {
		rt := sig.Results().At(i).Type()
		res = append(res, mk(g.freshConst("res", g.sortOf(rt)), g.sortOf(rt), rt))
	}
	return res
}

// findClosure follows a function value to a MakeClosure known in this or an enclosing frame.
func (f *Frame) findClosure(v ssa.Value) *closureVal {
	for fr := f; fr != nil; fr = fr.parent {
		if cl, ok := fr.closures[v]; ok {
			return cl
		}
	}
	return nil
}

func (f *Frame) findStaticFn(v ssa.Value) *ssa.Function {
	for fr := f; fr != nil; fr = fr.parent {
		if fn, ok := fr.staticFns[v]; ok {
			return fn
		}
	}
	return nil
}

func (f *Frame) invoke(bi *BInfo, c *ssa.CallCommon, args []T, resT types.Type) []T {
	g := f.g
	key := funcKey(c.Method)
	if g.cs.Pure[key] {
		return []T{g.pureApp(c.Method, args)}
	}
	// trusted contract on the interface method?
	recvT := c.Value.Type()
	if n := namedOf(recvT); n != nil && n.Obj().Pkg() != nil {
		ck := n.Obj().Pkg().Path() + "::" + n.Obj().Name() + "." + c.Method.Name()
		if fc := g.cs.Funcs[ck]; fc != nil {
			return f.applyContractSig(bi, fc, c.Method.Type().(*types.Signature), "recv", args, ck)
		}
	}
	g.note("interface call %s has no contract: results unconstrained, modelled heap unchanged", key)
	return f.freshResults(c.Method.Type().(*types.Signature))
}

func (f *Frame) freshResults(sig *types.Signature) []T {
	g := f.g
	var res []T
	for i := 0; i < sig.Results().Len(); i++ {
		rt := sig.Results().At(i).Type()
		v := mk(g.freshConst("res", g.sortOf(rt)), g.sortOf(rt), rt)
		res = append(res, v)
	}
	return res
}

func inRepo(fn *ssa.Function) bool {
	p := fn.Pkg
	x := fn
	for p == nil && x.Parent() != nil {
		x = x.Parent()
		p = x.Pkg
	}
	if p == nil {
		if fn.Object() != nil && fn.Object().Pkg() != nil {
			return strings.HasPrefix(fn.Object().Pkg().Path(), strings.TrimSuffix(modulePath, "/"))
		}
		return false
	}
	return strings.HasPrefix(p.Pkg.Path(), strings.TrimSuffix(modulePath, "/"))
}

func (f *Frame) staticCall(bi *BInfo, fn *ssa.Function, cl *closureVal, args []T, argVals []ssa.Value, resT types.Type) []T {
	g := f.g
	// sync primitives
	if res, ok := f.syncCall(bi, fn, args, argVals); ok {
		return res
	}
	if res, ok := f.atomicCall(bi, fn, args, argVals); ok {
		return res
	}
	if g.strTheory {
		var clean []T
		for _, a := range args {
			if a.S != "" {
				clean = append(clean, a)
			}
		}
		if r, ok := g.stringExtern(fn.String(), clean); ok {
			return []T{r}
		}
	}
	// call-site contract of the function being executed (assumed effect of an external call,
	// stated over the caller's variables)
	if f.fc != nil && f.fc.CallSites != nil {
		name := fn.String()
		if fn.Origin() != nil {
			name = fn.Origin().String()
		}
		if csc := f.fc.CallSites[name]; csc != nil {
			return f.applyCallSite(bi, fn, csc, name)
		}
	}
	if fo, ok := fn.Object().(*types.Func); ok && g.cs.Pure[funcKey(fo)] {
		var clean []T
		for _, a := range args {
			if a.S != "" {
				clean = append(clean, a)
			}
		}
		res := []T{g.pureApp(fo, clean)}
		for i := 1; i < fo.Type().(*types.Signature).Results().Len(); i++ {
			res = append(res, g.pureAppN(fo, clean, i))
		}
		return res
	}
	if f.top.fc != nil && fn.Blocks != nil {
		for _, name := range f.top.fc.Inlines {
			if matchesCallee(fn, name) && !f.inChain(fn) {
				// executed inline at the request of the function under verification (its contract
				// supplies the invariants of the callee's loops)
				return f.inlineCall(bi, fn, cl, args, argVals)
			}
		}
	}
	key := contractKeyOf(fn)
	fc := g.cs.Funcs[key]
	if fc == nil && fn.Origin() != nil {
		fc = g.cs.Funcs[contractKeyOf(fn.Origin())]
	}
	if fc != nil && !fc.Inline {
		if fc.Opts["havoc"] == "args" {
			// `opt havoc=args`: besides what the contract lists, the callee may change memory
			// directly reachable from its pointer / slice arguments (also wrapped in an interface):
			// decoders and the like, whose target type the contract cannot name
			f.havocArgs(bi, args, argVals)
		}
		res := f.applyContract(bi, fn, fc, args, argVals, cl)
		f.havocClosureArgs(bi, argVals)
		return res
	}
	if fn.Parent() != nil && fn.Blocks != nil {
		// anonymous function called directly
		return f.inlineCall(bi, fn, cl, args, argVals)
	}
	if fc != nil && fc.Inline && fn.Blocks != nil {
		return f.inlineCall(bi, fn, cl, args, argVals)
	}
	sig := fn.Signature
	if inRepo(fn) {
		// helpers without contract: loop-free ones are inlined (robust against extract-method
		// refactorings); others cannot be reasoned about
		if fn.Blocks != nil && loopFree(fn) && f.depth < g.maxInline && !f.inChain(fn) {
			g.note("call to %s (no contract, loop-free): inlined", fnDisplay(fn))
			return f.inlineCall(bi, fn, cl, args, argVals)
		}
		g.note("call to %s (no contract): the whole modelled heap is havocked", fnDisplay(fn))
		if !f.specMode {
			g.degrade("%s calls %s, which has loops or recursion and no contract", fnDisplay(f.fn), fnDisplay(fn))
		}
		f.havocAll(bi)
		return f.freshResults(sig)
	}
	// external function without contract: A-ext
	g.assumeNote("A-ext: external functions without a trusted contract return unconstrained values and change the modelled heap only through pointers and slices passed to them directly (also when wrapped in an interface value)")
	if readOnlyExtern(fn) {
		g.assumeNote("A-readonly: functions of fmt (except Scan*), log/slog, github.com/deckhouse/deckhouse/pkg/log, errors, strings and strconv do not modify memory reachable from their arguments")
	} else {
		f.havocArgs(bi, args, argVals)
		f.havocClosureArgs(bi, argVals)
	}
	res := f.freshResults(sig)
	f.externFacts(bi, fn, args, res)
	return res
}

func (f *Frame) havocAll(bi *BInfo) {
	g := f.g
	st := bi.out
	g.epochN++
	st.heap = map[string]string{}
	st.epoch = g.epochN
	nx := g.freshConst("next@havoc", "Int")
	g.assert(sLe(st.next, nx))
	st.next = nx
	g.epochBound[st.epoch] = nx
}

// havocArgs: memory directly reachable from pointer and slice arguments may be changed by an
// external callee.
func (f *Frame) havocArgs(bi *BInfo, args []T, argVals []ssa.Value) {
	g := f.g
	st := bi.out
	for i, a := range args {
		var av ssa.Value
		if i < len(argVals) {
			av = argVals[i]
		}
		if a.S == "" && av != nil {
			if l, ok := f.locs[av]; ok {
				// address of a location: content is havocked
				nv := g.freshConst("hv:ext", g.sortOf(l.T))
				g.store(st, l, nv)
			}
			continue
		}
		if mi, ok := av.(*ssa.MakeInterface); ok {
			// a pointer or slice handed over as interface{} (json.Decode(&x), fmt.Sscan(&x), ...)
			if _, isIface := mi.X.Type().Underlying().(*types.Interface); !isIface {
				if l, ok := f.locs[mi.X]; ok {
					g.store(st, l, g.freshConst("hv:ext", g.sortOf(l.T)))
					continue
				}
				a = f.val(mi.X)
			}
		}
		if a.GT == nil {
			continue
		}
		switch u := a.GT.Underlying().(type) {
		case *types.Slice:
			arr, es := g.elemsArr(u.Elem())
			nv := g.freshConst("hv:ext", es)
			g.setArr(st, arr, es, sto(g.arr(st, arr, es), slBase(a.S), nv))
		case *types.Pointer:
			pt := u.Elem()
			if isStruct(pt) {
				su := pt.Underlying().(*types.Struct)
				for k := 0; k < su.NumFields(); k++ {
					l := g.fieldLoc(a.S, pt, k)
					g.store(st, l, g.freshConst("hv:ext", g.sortOf(l.T)))
				}
			} else if _, isArr := pt.Underlying().(*types.Array); !isArr {
				l := g.cellLoc(a.S, pt)
				g.store(st, l, g.freshConst("hv:ext", g.sortOf(pt)))
			}
		}
	}
}

// readOnlyExtern: formatting and logging functions (assumption A-readonly).
func readOnlyExtern(fn *ssa.Function) bool {
	pkg := ""
	if fn.Pkg != nil {
		pkg = fn.Pkg.Pkg.Path()
	} else if o := fn.Object(); o != nil && o.Pkg() != nil {
		pkg = o.Pkg().Path()
	}
	switch pkg {
	case "fmt":
		return !strings.Contains(fn.Name(), "Scan")
	case "log/slog", "github.com/deckhouse/deckhouse/pkg/log", "errors", "strings", "strconv":
		return true
	}
	return false
}

// externFacts: a few hard-wired facts about standard-library functions (each is listed as an
// assumption when used).
func (f *Frame) externFacts(bi *BInfo, fn *ssa.Function, args []T, res []T) {
	g := f.g
	name := fn.String()
	switch name {
	case "fmt.Errorf", "errors.New":
		g.assert(sNot(sEq(res[0].S, "0")))
		g.assumeNote("trusted: %s returns a non-nil error", name)
	}
}

// ---------------------------------------------------------------- contracts at call sites

func (f *Frame) applyContract(bi *BInfo, fn *ssa.Function, fc *FuncContract, args []T, argVals []ssa.Value, cl *closureVal) []T {
	g := f.g
	if len(fn.FreeVars) > 0 && cl == nil {
		g.note("closure %s called by contract without known bindings: heap havocked", fnDisplay(fn))
		f.havocAll(bi)
		return f.freshResults(fn.Signature)
	}
	// arguments that are addresses (locations): contracts see them as opaque references
	for i := range args {
		if args[i].S == "" {
			args[i] = mk(g.freshConst("argaddr", "Int"), "Int", args[i].GT)
		}
	}
	names := make([]string, len(fn.Params))
	for i, p := range fn.Params {
		names[i] = p.Name()
	}
	if len(fn.Params) == 0 && fn.Signature != nil {
		// no body (external function): names come from the signature
		if r := fn.Signature.Recv(); r != nil {
			names = append(names, r.Name())
		}
		for i := 0; i < fn.Signature.Params().Len(); i++ {
			names = append(names, fn.Signature.Params().At(i).Name())
		}
	}
	args = args[:min(len(args), len(names))]
	// free variables of a closure are visible by name: their current content
	if cl != nil {
		for i, fv := range fn.FreeVars {
			if i >= len(cl.bindings) {
				break
			}
			b := cl.bindings[i]
			var v T
			if l := cl.frame.addrLoc(b); l != nil {
				v = g.load(bi.out, l)
			} else if pt := derefType(b.Type()); pt != nil && isStruct(pt) {
				v = g.loadStruct(bi.out, cl.frame.val(b).S, pt)
			} else {
				continue
			}
			names = append(names, fv.Name())
			args = append(args, v)
			if _, isLoc := cl.frame.locs[b]; !isLoc {
				names = append(names, "&"+fv.Name())
				args = append(args, cl.frame.val(b))
			}
		}
	}
	var pkg *types.Package
	for p := fn; p != nil; p = p.Parent() {
		if p.Pkg != nil {
			pkg = p.Pkg.Pkg
			break
		}
	}
	return f.applyContractNamed(bi, fc, fn.Signature, names, args, pkg, fnDisplay(fn))
}

func (f *Frame) applyContractSig(bi *BInfo, fc *FuncContract, sig *types.Signature, recvName string, args []T, disp string) []T {
	names := []string{recvName}
	for i := 0; i < sig.Params().Len(); i++ {
		n := sig.Params().At(i).Name()
		if n == "" {
			n = fmt.Sprintf("arg%d", i)
		}
		names = append(names, n)
	}
	var pkg *types.Package
	for _, sp := range f.g.prog.AllPackages() {
		if sp.Pkg.Path() == fc.Pkg {
			pkg = sp.Pkg
		}
	}
	return f.applyContractNamed(bi, fc, sig, names, args, pkg, disp)
}

func (f *Frame) applyContractNamed(bi *BInfo, fc *FuncContract, sig *types.Signature, names []string, args []T, pkg *types.Package, disp string) []T {
	g := f.g
	st := bi.out
	pre := st.clone()
	env := &SpecEnv{g: g, pkg: pkg, cur: pre, old: pre, vars: map[string]T{}, fr: f}
	for i, n := range names {
		if i < len(args) {
			env.vars[n] = args[i]
		}
	}
	// lets that only mention the pre-state are usable in requires
	preLets := func(e *SpecEnv) {
		for _, l := range fc.Lets {
			if v, err := e.evalAny(l.Expr); err == nil {
				e.vars[l.Name] = v
			}
		}
	}
	preLets(env)
	for i, c := range fc.Requires {
		v, err := env.evalBool(c.Expr)
		if err != nil {
			g.resolutionFailure(f, fmt.Sprintf("requires of %s: %v", disp, err))
			continue
		}
		if strings.HasPrefix(c.Label, "assumed:") {
			// an assumption about the environment that the callee's proof needs and that no caller
			// can establish (listed in the evidence, never discharged)
			g.assumeNote("assumed precondition of %s [%s]: %s", disp, c.Label, c.Text)
			continue
		}
		f.addObl("pre", disp+"/"+clauseLabel(c, i), bi.R, v.S, "precondition of "+disp+": "+c.Text)
	}
	// frame
	if !fc.HasMod {
		g.note("contract of %s has no modifies clause: callers havoc the whole modelled heap", disp)
		f.havocAll(bi)
	} else {
		nx := g.freshConst("next@call", "Int")
		g.assert(sLe(st.next, nx))
		st.next = nx
		for _, m := range fc.Modifies {
			ents, err := f.evalModifies(env, m)
			if err != nil {
				g.resolutionFailure(f, fmt.Sprintf("modifies of %s: %v", disp, err))
				f.havocAll(bi)
				break
			}
			for _, me := range ents {
				es := g.arrReg[me.arr]
				if me.ref == "" {
					g.havocArr(st, me.arr, "call")
					f.frameCheckWhole(bi, me.arr, disp)
					continue
				}
				f.frameCheck(bi, me.arr, me.ref, "call of "+disp+" (modifies "+m.Text+")")
				before := g.arr(st, me.arr, es)
				after := g.havocArr(st, me.arr, "call")
				g.assert(sForall("r!m", sImp(sNot(sEq("r!m", me.ref)), sEq(sel(after, "r!m"), sel(before, "r!m")))))
			}
		}
	}
	res := f.freshResults(sig)
	post := &SpecEnv{g: g, pkg: pkg, cur: st, old: pre, vars: map[string]T{}, result: res, fr: f}
	for k, v := range env.vars {
		post.vars[k] = v
	}
	for i := 0; i < sig.Results().Len() && i < len(res); i++ {
		if n := sig.Results().At(i).Name(); n != "" && n != "_" {
			post.vars[n] = res[i]
		}
	}
	preLets(post)
	for _, r := range res {
		if w := g.wfFacts(st, r); w != "true" {
			g.assert(sImp(bi.R, w))
		}
	}
	if len(fc.GhostSets) > 0 {
		// the right-hand sides read the state before the call (the callee's own effect on the
		// ghosts IS the ghostset); results are available
		ge := *post
		ge.cur = pre
		f.applyGhostSets(fc, &ge, st)
	}
	for _, c := range fc.Ensures {
		v, err := post.evalBool(c.Expr)
		if err != nil {
			if strings.Contains(err.Error(), "range-over-map") {
				// a clause about the callee's own iteration order: meaningless for a caller
				g.note("ensures [%s] of %s speaks about the callee's map iteration: not used at this call", c.Label, disp)
				continue
			}
			g.resolutionFailure(f, fmt.Sprintf("ensures of %s: %v", disp, err))
			continue
		}
		g.assert(sImp(bi.R, v.S))
	}
	if fc.Trusted {
		g.assumeNote("trusted contract: %s (assumed, not verified)", disp)
	}
	return res
}

func (f *Frame) frameCheckWhole(bi *BInfo, arr, disp string) {
	top := f.top
	if !top.hasMod || f.specMode {
		return
	}
	for _, m := range top.mods {
		if m.arr == arr && m.ref == "" {
			return
		}
	}
	f.addObl("frame", sanitizeLabel(arr)+"/*", bi.R, "false", "call of "+disp+" modifies every "+arr)
}

// evalModifies turns one modifies expression into heap locations.
//
//	x.f            field f of object x
//	elems(s)       the backing array of slice s
//	mapof(m)       the content of map m
//	*p             the cell p points to
//	all(T.f)       field f of every object of type T
func (f *Frame) evalModifies(env *SpecEnv, c Clause) (ents []modEntry, err error) {
	g := f.g
	defer func() {
		if r := recover(); r != nil {
			if se, ok := r.(specError); ok {
				err = se
				return
			}
			panic(r)
		}
	}()
	ents = env.modTargets(c.Expr, c.Text)
	for _, e := range ents {
		if _, ok := g.arrReg[e.arr]; !ok {
			return nil, specError{"modifies target " + c.Text + " has unknown sort"}
		}
	}
	return ents, nil
}

// atomicCall: sync/atomic operations on a location.
func (f *Frame) atomicCall(bi *BInfo, fn *ssa.Function, args []T, argVals []ssa.Value) ([]T, bool) {
	name := fn.String()
	if !strings.HasPrefix(name, "sync/atomic.") || len(argVals) == 0 {
		return nil, false
	}
	l := f.addrLoc(argVals[0])
	if l == nil {
		return nil, false
	}
	g := f.g
	st := bi.out
	op := strings.TrimPrefix(name, "sync/atomic.")
	switch {
	case strings.HasPrefix(op, "Add"):
		nv := sAdd(g.load(st, l).S, args[1].S)
		f.frameCheck(bi, l.arr, l.ref, "atomic add")
		g.store(st, l, nv)
		return []T{mk(nv, "Int", l.T)}, true
	case strings.HasPrefix(op, "Load"):
		return []T{g.load(st, l)}, true
	case strings.HasPrefix(op, "Store"):
		f.frameCheck(bi, l.arr, l.ref, "atomic store")
		g.store(st, l, args[1].S)
		return nil, true
	}
	return nil, false
}

// loopFree reports whether fn has no back edge (and so can be inlined without an invariant).
func loopFree(fn *ssa.Function) bool {
	for _, b := range fn.Blocks {
		for _, s := range b.Succs {
			if s.Dominates(b) {
				return false
			}
		}
	}
	return true
}

// stringExtern: standard-library string functions under `opt theory=strings` (SMT-LIB strings).
// Assumption (listed): the strings involved are ASCII, so byte and code-point indices coincide.
func (g *Gen) stringExtern(name string, a []T) (T, bool) {
	str := types.Typ[types.String]
	switch name {
	case "strings.Index":
		g.assumeNote("theory strings: byte indices = code-point indices (ASCII strings)")
		return intT(app("str.indexof", a[0].S, a[1].S, "0")), true
	case "strings.IndexRune", "strings.IndexByte":
		g.assumeNote("theory strings: byte indices = code-point indices (ASCII strings)")
		return intT(app("str.indexof", a[0].S, app("str.from_code", a[1].S), "0")), true
	case "strings.HasPrefix":
		return boolT(app("str.prefixof", a[1].S, a[0].S)), true
	case "strings.HasSuffix":
		return boolT(app("str.suffixof", a[1].S, a[0].S)), true
	case "strings.Contains":
		return boolT(app("str.contains", a[0].S, a[1].S)), true
	case "strings.TrimPrefix":
		return mk(sIte(app("str.prefixof", a[1].S, a[0].S), app("str.substr", a[0].S, app("str.len", a[1].S), app("str.len", a[0].S)), a[0].S), "Str", str), true
	}
	return T{}, false
}

// havocClosureArgs: a callee that is not inlined may call the closures passed to it, any number
// of times. Everything such a closure may change is havocked (found by a dry run of its body).
func (f *Frame) havocClosureArgs(bi *BInfo, argVals []ssa.Value) {
	g := f.g
	for _, av := range argVals {
		if av == nil {
			continue
		}
		cl := f.findClosure(av)
		if cl == nil || cl.fn.Blocks == nil || f.depth >= g.maxInline || f.inChain(cl.fn) {
			continue
		}
		// dry run of the closure body from the current state with unconstrained arguments
		snap := g.snapshot()
		saveSpec := f.specMode
		f.specMode = true
		before := bi.out.clone()
		sub := &BInfo{R: bi.R, in: bi.out, out: bi.out.clone()}
		var cargs []T
		var cvals []ssa.Value
		for _, p := range cl.fn.Params {
			cargs = append(cargs, mk(g.freshConst("cbarg", g.sortOf(p.Type())), g.sortOf(p.Type()), p.Type()))
			cvals = append(cvals, nil)
		}
		f.inlineCall(sub, cl.fn, cl, cargs, cvals)
		var changed []string
		all := sub.out.epoch != before.epoch
		for _, name := range g.sortedArrNames() {
			es := g.arrReg[name]
			if g.arr(sub.out, name, es) != g.arr(before, name, es) {
				changed = append(changed, name)
			}
		}
		f.specMode = saveSpec
		g.restore(snap)
		if all {
			f.havocAll(bi)
			continue
		}
		sort.Strings(changed)
		for _, name := range changed {
			g.havocArr(bi.out, name, "closure-arg")
		}
		if len(changed) > 0 {
			g.assumeNote("A-closure-arg: a callee may run the closures passed to it; everything such a closure can change is havocked after the call")
		}
	}
}

// applyCallSite applies a call-site contract: modifies / ensures are evaluated in the caller's
// own environment at the call (source variables of the caller), old() = state before the call.
func (f *Frame) applyCallSite(bi *BInfo, fn *ssa.Function, csc *FuncContract, name string) []T {
	g := f.g
	st := bi.out
	pre := st.clone()
	// position: the block being executed
	var at *ssa.BasicBlock
	atIdx := 0
	for b, info := range f.binfo {
		if info == bi {
			at = b
		}
	}
	if at != nil {
		atIdx = len(at.Instrs)
		for i, ins := range at.Instrs {
			if c, ok := ins.(ssa.CallInstruction); ok && c.Common().StaticCallee() == fn {
				if v, isV := ins.(ssa.Value); isV {
					if _, done := f.vals[v]; done {
						continue
					}
					if _, done := f.tuples[v]; done {
						continue
					}
				}
				atIdx = i
				break
			}
		}
	}
	envPre := f.specEnv(pre, at, atIdx, nil, nil)
	envPre.old = pre
	nx := g.freshConst("next@call", "Int")
	g.assert(sLe(st.next, nx))
	st.next = nx
	for _, m := range csc.Modifies {
		ents, err := f.evalModifies(envPre, m)
		if err != nil {
			g.resolutionFailure(f, fmt.Sprintf("callsite %s modifies: %v", name, err))
			f.havocAll(bi)
			break
		}
		for _, me := range ents {
			es := g.arrReg[me.arr]
			if me.ref == "" {
				g.havocArr(st, me.arr, "call")
				continue
			}
			f.frameCheck(bi, me.arr, me.ref, "call of "+name)
			before := g.arr(st, me.arr, es)
			after := g.havocArr(st, me.arr, "call")
			g.assert(sForall("r!m", sImp(sNot(sEq("r!m", me.ref)), sEq(sel(after, "r!m"), sel(before, "r!m")))))
		}
	}
	res := f.freshResults(fn.Signature)
	post := f.specEnv(st, at, atIdx, nil, nil)
	post.old = pre
	post.result = res
	for _, w := range csc.Witnesses {
		t := post.resolveType(w.Type)
		sort := g.sortOf(t)
		if mt, ok := t.Underlying().(*types.Map); ok {
			sort = fmt.Sprintf("(Array %s %s)", g.sortOf(mt.Key()), g.sortOf(mt.Elem()))
		}
		post.vars[w.Name] = mk(g.freshConst("wit:"+w.Name, sort), sort, t)
	}
	for _, c := range csc.Ensures {
		v, err := post.evalBool(c.Expr)
		if err != nil {
			g.resolutionFailure(f, fmt.Sprintf("callsite %s ensures: %v", name, err))
			continue
		}
		g.assert(sImp(bi.R, v.S))
	}
	g.assumeNote("call-site contract (assumed): %s in %s", name, fnDisplay(f.fn))
	return res
}

// isWaitingExtern: library calls that wait for an unbounded (caller-chosen) time.
func isWaitingExtern(fn *ssa.Function) bool {
	switch fn.String() {
	case "time.Sleep", "(*sync.WaitGroup).Wait", "(*sync.Cond).Wait":
		return true
	}
	return false
}
