package main

// Parser for the contract files (comment-only Go files guarded by the build tag `verif`).
// Every directive line starts with "//@".

import (
	"bufio"
	"fmt"
	"go/ast"
	"go/parser"
	"os"
	"path/filepath"
	"regexp"
	"strconv"
	"strings"
)

type Clause struct {
	Label string
	Only  []string // `[label @C04,C07]`: the clause is an obligation of these properties only
	Text  string
	Expr  ast.Expr
	Pos   string
}

type Let struct {
	Name string
	Expr ast.Expr
	Text string
}

type LoopContract struct {
	Ordinal    int
	Invariants []Clause
	Havoc      []string // extra heap arrays to havoc (rare)
	GhostSets  []Let    // ghost snapshots taken when the loop is entered: ghostset g := expr
}

type ParamDecl struct {
	Name string
	Type ast.Expr
}

type Pred struct {
	Pkg    string // package path the declaration lives in
	Name   string
	Params []ParamDecl
	Result ast.Expr // nil for predicates (Bool)
	Body   ast.Expr // nil for uninterpreted spec functions
	Axioms []Clause
	Text   string
}

type LockDecl struct {
	Pkg       string
	Type      string // struct type name
	Field     string // mutex field
	Recv      string // name used for the object in invariants
	Protects  []string
	Invariant []Clause
	Rely      []Clause
	Props     []string // `prop C01` inside the lock block: the concurrency model of this lock is used only when checking these properties (elsewhere the critical sections are treated as atomic, sequential code)
}

type FuncContract struct {
	Pkg      string // package path
	Key      string // RelString of the function relative to its package
	Props    []string
	Requires []Clause
	Ensures  []Clause
	Lets     []Let
	Modifies []Clause
	HasMod   bool
	Loops    map[int]*LoopContract
	Checks   map[string]bool
	Opts     map[string]string
	Inline   bool
	Trusted  bool // assumed contract (external or deliberately unverified function)
	Pure     bool
	File     string
	Ghost    []string
	// CallSites: assumed effect of calls to external functions made by this function, stated over
	// the caller's variables (e.g. sort.SliceStable with this function's comparator)
	CallSites map[string]*FuncContract
	Witnesses []ParamDecl // fresh logical values available to the ensures of a call-site contract
	GhostSets []Let       // ghost assignments executed when the function returns: ghostset g := expr
	// Inlines: callees (suffix of their display name or closure alias) that are executed inline in
	// this function even though they have loops or a contract of their own; InlineLoops: the
	// invariants of their loops, stated over this function's variables ("<callee>#<ordinal>").
	Inlines     []string
	InlineLoops map[string]*LoopContract
	// AtLock: conditions that must hold whenever this function acquires the named mutex field
	// (`at-lock eventBufLock: held(ei.cacheLock)`): lock nesting required by an atomicity argument
	AtLock map[string][]Clause
}

func (fc *FuncContract) FullKey() string { return fc.Pkg + "::" + fc.Key }

type Contracts struct {
	Funcs  map[string]*FuncContract // by FullKey
	Preds  map[string]*Pred         // by pkg::name and by bare name (if unambiguous)
	Pure   map[string]bool          // pure interface methods / functions, by type-qualified name
	Locks  []*LockDecl
	Lines  []string // all directive lines (for the assumption scan)
	Files  []string
	Ghosts map[string]ParamDecl // ghost globals: name -> type
}

var kwRe = regexp.MustCompile(`^(func|trusted func|pure|inline|pred|specfn|lock|ghost|requires|ensures|modifies|let|loop|invariant|prop|check|opt|axiom|rely|havoc|protects|recv|callsite|witness|ghostset|inlines|at-lock)\b`)

func implicit(text string) string { return strings.TrimSpace(text) }

// loadContracts reads every zz_contracts_verif.go under root.
func loadContracts(root string, extra []string) (*Contracts, error) {
	cs := &Contracts{Funcs: map[string]*FuncContract{}, Preds: map[string]*Pred{}, Pure: map[string]bool{}, Ghosts: map[string]ParamDecl{}}
	var files []string
	filepath.Walk(root, func(p string, info os.FileInfo, err error) error {
		if err == nil && !info.IsDir() && strings.HasSuffix(p, "_contracts_verif.go") {
			files = append(files, p)
		}
		return nil
	})
	files = append(files, extra...)
	for _, f := range files {
		if err := cs.parseFile(root, f); err != nil {
			return nil, err
		}
	}
	cs.Files = files
	return cs, nil
}

type rawDirective struct {
	kw   string
	text string
	pos  string
	pkg  string
}

func (cs *Contracts) parseFile(root, file string) error {
	fh, err := os.Open(file)
	if err != nil {
		return err
	}
	defer fh.Close()
	rel, _ := filepath.Rel(root, filepath.Dir(file))
	pkgPath := strings.TrimSuffix(modulePath, "/")
	if rel != "." && !strings.HasPrefix(rel, "..") {
		pkgPath = modulePath + filepath.ToSlash(rel)
	}
	var dirs []rawDirective
	sc := bufio.NewScanner(fh)
	sc.Buffer(make([]byte, 1<<20), 1<<20)
	ln := 0
	for sc.Scan() {
		ln++
		line := strings.TrimSpace(sc.Text())
		if !strings.HasPrefix(line, "//@") {
			continue
		}
		body := strings.TrimSpace(line[3:])
		if i := strings.Index(body, " //"); i >= 0 { // trailing comment
			body = strings.TrimSpace(body[:i])
		}
		if body == "" || strings.HasPrefix(body, "//") {
			continue
		}
		cs.Lines = append(cs.Lines, fmt.Sprintf("%s:%d: %s", filepath.Base(filepath.Dir(file))+"/"+filepath.Base(file), ln, body))
		if strings.HasPrefix(body, "package ") {
			pkgPath = strings.TrimSpace(body[len("package "):])
			continue
		}
		if m := kwRe.FindString(body); m != "" {
			dirs = append(dirs, rawDirective{kw: m, text: strings.TrimSpace(body[len(m):]), pos: fmt.Sprintf("%s:%d", file, ln), pkg: pkgPath})
		} else if len(dirs) > 0 {
			dirs[len(dirs)-1].text += " " + body
		} else {
			return fmt.Errorf("%s:%d: continuation without directive", file, ln)
		}
	}
	var cur *FuncContract
	var owner *FuncContract // the function contract a callsite block belongs to
	var curLoop *LoopContract
	var curLock *LockDecl
	var curPred *Pred
	for _, d := range dirs {
		pkgPath = d.pkg
		switch d.kw {
		case "func", "trusted func":
			key := d.text
			pkg := pkgPath
			if i := strings.Index(key, "::"); i >= 0 {
				pkg, key = key[:i], key[i+2:]
			}
			cur = &FuncContract{Pkg: pkg, Key: key, Loops: map[int]*LoopContract{}, Checks: map[string]bool{}, Opts: map[string]string{}, File: file, Trusted: d.kw == "trusted func"}
			if old, ok := cs.Funcs[cur.FullKey()]; ok {
				return fmt.Errorf("%s: duplicate contract for %s (first in %s)", d.pos, cur.FullKey(), old.File)
			}
			cs.Funcs[cur.FullKey()] = cur
			owner = nil
			curLoop, curLock, curPred = nil, nil, nil
		case "inline":
			if d.text == "" && cur != nil {
				cur.Inline = true
				continue
			}
			key := d.text
			pkg := pkgPath
			if i := strings.Index(key, "::"); i >= 0 {
				pkg, key = key[:i], key[i+2:]
			}
			fc := &FuncContract{Pkg: pkg, Key: key, Loops: map[int]*LoopContract{}, Checks: map[string]bool{}, Opts: map[string]string{}, File: file, Inline: true}
			cs.Funcs[fc.FullKey()] = fc
			cur, curLoop, curLock, curPred = fc, nil, nil, nil
		case "pure":
			for _, n := range strings.Fields(d.text) {
				cs.Pure[n] = true
			}
		case "pred", "specfn":
			p, err := parsePred(d.kw, d.text, d.pos)
			if err != nil {
				return err
			}
			p.Pkg = pkgPath
			cs.Preds[pkgPath+"::"+p.Name] = p
			if _, dup := cs.Preds[p.Name]; dup {
				cs.Preds[p.Name] = nil // ambiguous bare name
			} else {
				cs.Preds[p.Name] = p
			}
			curPred, cur, curLoop, curLock = p, nil, nil, nil
		case "axiom":
			if curPred == nil {
				return fmt.Errorf("%s: axiom outside specfn", d.pos)
			}
			c, err := parseClause(d.text, d.pos)
			if err != nil {
				return err
			}
			curPred.Axioms = append(curPred.Axioms, c)
		case "ghost":
			// ghost <name> <type>
			parts := strings.SplitN(d.text, " ", 2)
			if len(parts) != 2 {
				return fmt.Errorf("%s: ghost <name> <type>", d.pos)
			}
			te, err := parser.ParseExpr(parts[1])
			if err != nil {
				return fmt.Errorf("%s: %v", d.pos, err)
			}
			cs.Ghosts[pkgPath+"::"+parts[0]] = ParamDecl{Name: parts[0], Type: te}
		case "lock":
			// lock (*T).m
			m := regexp.MustCompile(`^\(\*(\w+)\)\.(\w+)$`).FindStringSubmatch(d.text)
			if m == nil {
				return fmt.Errorf("%s: lock (*T).field expected", d.pos)
			}
			curLock = &LockDecl{Pkg: pkgPath, Type: m[1], Field: m[2], Recv: "this"}
			cs.Locks = append(cs.Locks, curLock)
			cur, curLoop, curPred = nil, nil, nil
		case "protects":
			if curLock == nil {
				return fmt.Errorf("%s: protects outside lock", d.pos)
			}
			for _, f := range strings.Split(d.text, ",") {
				curLock.Protects = append(curLock.Protects, strings.TrimSpace(f))
			}
		case "recv":
			if curLock == nil {
				return fmt.Errorf("%s: recv outside lock", d.pos)
			}
			curLock.Recv = d.text
		case "rely":
			if curLock == nil {
				return fmt.Errorf("%s: rely outside lock", d.pos)
			}
			c, err := parseClause(d.text, d.pos)
			if err != nil {
				return err
			}
			curLock.Rely = append(curLock.Rely, c)
		case "invariant":
			c, err := parseClause(d.text, d.pos)
			if err != nil {
				return err
			}
			switch {
			case curLock != nil:
				curLock.Invariant = append(curLock.Invariant, c)
			case curLoop != nil:
				curLoop.Invariants = append(curLoop.Invariants, c)
			default:
				return fmt.Errorf("%s: invariant outside loop/lock", d.pos)
			}
		case "callsite":
			host := cur
			if owner != nil {
				host = owner
			}
			if host == nil {
				return fmt.Errorf("%s: callsite outside func", d.pos)
			}
			owner = host
			cs2 := &FuncContract{Pkg: host.Pkg, Key: host.Key + "@" + d.text, Loops: map[int]*LoopContract{}, Checks: map[string]bool{}, Opts: map[string]string{}, File: file, Trusted: true}
			if host.CallSites == nil {
				host.CallSites = map[string]*FuncContract{}
			}
			host.CallSites[strings.TrimSpace(d.text)] = cs2
			cur, curLoop = cs2, nil
		case "witness":
			if cur == nil {
				return fmt.Errorf("%s: witness outside callsite", d.pos)
			}
			parts := strings.SplitN(d.text, " ", 2)
			if len(parts) != 2 {
				return fmt.Errorf("%s: witness <name> <type>", d.pos)
			}
			te, err := parser.ParseExpr(parts[1])
			if err != nil {
				return fmt.Errorf("%s: %v", d.pos, err)
			}
			cur.Witnesses = append(cur.Witnesses, ParamDecl{Name: parts[0], Type: te})
		case "loop":
			if owner != nil {
				cur, owner = owner, nil
			}
			if cur == nil {
				return fmt.Errorf("%s: loop outside func", d.pos)
			}
			if i := strings.LastIndex(d.text, "#"); i >= 0 {
				// loop of an inlined callee: loop <callee>#<ordinal>
				n, err := strconv.Atoi(strings.TrimSpace(d.text[i+1:]))
				if err != nil {
					return fmt.Errorf("%s: loop <callee>#<ordinal>", d.pos)
				}
				curLoop = &LoopContract{Ordinal: n}
				if cur.InlineLoops == nil {
					cur.InlineLoops = map[string]*LoopContract{}
				}
				cur.InlineLoops[strings.TrimSpace(d.text[:i])+"#"+strconv.Itoa(n)] = curLoop
				break
			}
			n, err := strconv.Atoi(strings.TrimSpace(d.text))
			if err != nil {
				return fmt.Errorf("%s: loop <ordinal>", d.pos)
			}
			curLoop = &LoopContract{Ordinal: n}
			cur.Loops[n] = curLoop
		case "havoc":
			if curLoop == nil {
				return fmt.Errorf("%s: havoc outside loop", d.pos)
			}
			curLoop.Havoc = append(curLoop.Havoc, strings.Fields(d.text)...)
		default:
			if cur == nil && curLock != nil && d.kw == "prop" {
				curLock.Props = append(curLock.Props, strings.Fields(strings.ReplaceAll(d.text, ",", " "))...)
				break
			}
			if cur == nil {
				return fmt.Errorf("%s: %s outside func", d.pos, d.kw)
			}
			switch d.kw {
			case "at-lock":
				kv := strings.SplitN(d.text, ":", 2)
				if len(kv) != 2 {
					return fmt.Errorf("%s: at-lock <mutex field>: <condition>", d.pos)
				}
				c, err := parseClause(kv[1], d.pos)
				if err != nil {
					return err
				}
				if cur.AtLock == nil {
					cur.AtLock = map[string][]Clause{}
				}
				cur.AtLock[strings.TrimSpace(kv[0])] = append(cur.AtLock[strings.TrimSpace(kv[0])], c)
			case "inlines":
				for _, c := range splitTopComma(d.text) {
					cur.Inlines = append(cur.Inlines, strings.TrimSpace(c))
				}
			case "prop":
				cur.Props = append(cur.Props, strings.Fields(strings.ReplaceAll(d.text, ",", " "))...)
			case "check":
				for _, c := range strings.Fields(strings.ReplaceAll(d.text, ",", " ")) {
					cur.Checks[c] = true
				}
			case "opt":
				kv := strings.SplitN(d.text, "=", 2)
				if len(kv) == 2 {
					cur.Opts[strings.TrimSpace(kv[0])] = strings.TrimSpace(kv[1])
				} else {
					cur.Opts[strings.TrimSpace(d.text)] = "true"
				}
			case "requires", "ensures":
				c, err := parseClause(d.text, d.pos)
				if err != nil {
					return err
				}
				if d.kw == "requires" {
					cur.Requires = append(cur.Requires, c)
				} else {
					cur.Ensures = append(cur.Ensures, c)
				}
				curLoop = nil
			case "modifies":
				cur.HasMod = true
				if strings.TrimSpace(d.text) != "nothing" {
					for _, part := range splitTopComma(d.text) {
						c, err := parseClause(part, d.pos)
						if err != nil {
							return err
						}
						cur.Modifies = append(cur.Modifies, c)
					}
				}
			case "ghostset":
				kv := strings.SplitN(d.text, ":=", 2)
				if len(kv) != 2 {
					return fmt.Errorf("%s: ghostset g := e", d.pos)
				}
				e, err := parseSpecExpr(kv[1])
				if err != nil {
					return fmt.Errorf("%s: %v", d.pos, err)
				}
				if curLoop != nil {
					curLoop.GhostSets = append(curLoop.GhostSets, Let{Name: strings.TrimSpace(kv[0]), Expr: e, Text: d.text})
				} else {
					cur.GhostSets = append(cur.GhostSets, Let{Name: strings.TrimSpace(kv[0]), Expr: e, Text: d.text})
				}
			case "let":
				kv := strings.SplitN(d.text, ":=", 2)
				if len(kv) != 2 {
					return fmt.Errorf("%s: let x := e", d.pos)
				}
				e, err := parseSpecExpr(kv[1])
				if err != nil {
					return fmt.Errorf("%s: %v", d.pos, err)
				}
				cur.Lets = append(cur.Lets, Let{Name: strings.TrimSpace(kv[0]), Expr: e, Text: d.text})
			}
		}
	}
	return nil
}

var labelRe = regexp.MustCompile(`^\[([\w\-./:]+)(?:\s+@([\w,]+))?\]\s*`)

// currentProp is the property being checked (empty: all clauses are obligations).
var currentProp string

func (c Clause) skipped() bool {
	return len(c.Only) > 0 && currentProp != "" && !contains(c.Only, currentProp)
}

func parseClause(text, pos string) (Clause, error) {
	c := Clause{Pos: pos}
	text = strings.TrimSpace(text)
	if m := labelRe.FindStringSubmatch(text); m != nil {
		c.Label = m[1]
		if m[2] != "" {
			c.Only = strings.Split(m[2], ",")
		}
		text = text[len(m[0]):]
	}
	c.Text = text
	e, err := parseSpecExpr(text)
	if err != nil {
		return c, fmt.Errorf("%s: %v in %q", pos, err, text)
	}
	c.Expr = e
	return c, nil
}

func parsePred(kw, text, pos string) (*Pred, error) {
	// pred Name(a T, b U) := body        specfn name(a T) R [:= body]
	i := strings.Index(text, "(")
	if i < 0 {
		return nil, fmt.Errorf("%s: bad %s", pos, kw)
	}
	name := strings.TrimSpace(text[:i])
	depth, j := 0, i
	for ; j < len(text); j++ {
		if text[j] == '(' {
			depth++
		} else if text[j] == ')' {
			depth--
			if depth == 0 {
				break
			}
		}
	}
	if j >= len(text) {
		return nil, fmt.Errorf("%s: unbalanced parameters", pos)
	}
	p := &Pred{Name: name, Text: text}
	for _, ps := range splitTopComma(text[i+1 : j]) {
		ps = strings.TrimSpace(ps)
		if ps == "" {
			continue
		}
		k := strings.IndexAny(ps, " \t")
		if k < 0 {
			return nil, fmt.Errorf("%s: parameter %q needs a type", pos, ps)
		}
		te, err := parser.ParseExpr(strings.TrimSpace(ps[k:]))
		if err != nil {
			return nil, fmt.Errorf("%s: %v", pos, err)
		}
		p.Params = append(p.Params, ParamDecl{Name: ps[:k], Type: te})
	}
	rest := strings.TrimSpace(text[j+1:])
	var body string
	if k := strings.Index(rest, ":="); k >= 0 {
		body = strings.TrimSpace(rest[k+2:])
		rest = strings.TrimSpace(rest[:k])
	}
	if kw == "specfn" {
		if rest == "" {
			return nil, fmt.Errorf("%s: specfn needs a result type", pos)
		}
		te, err := parser.ParseExpr(rest)
		if err != nil {
			return nil, fmt.Errorf("%s: %v", pos, err)
		}
		p.Result = te
	}
	if body != "" {
		e, err := parseSpecExpr(body)
		if err != nil {
			return nil, fmt.Errorf("%s: %v", pos, err)
		}
		p.Body = e
	}
	return p, nil
}

// splitTopComma splits at commas that are not nested in brackets or strings.
func splitTopComma(s string) []string {
	var out []string
	depth := 0
	start := 0
	inStr := false
	for i := 0; i < len(s); i++ {
		c := s[i]
		if inStr {
			if c == '\\' {
				i++
			} else if c == '"' {
				inStr = false
			}
			continue
		}
		switch c {
		case '"':
			inStr = true
		case '(', '[', '{':
			depth++
		case ')', ']', '}':
			depth--
		case ',':
			if depth == 0 {
				out = append(out, s[start:i])
				start = i + 1
			}
		}
	}
	out = append(out, s[start:])
	return out
}

// parseSpecExpr parses a specification expression: Go expression syntax extended with the
// right-associative implication `==>` (lowest precedence), rewritten to imp(a, b).
func parseSpecExpr(s string) (ast.Expr, error) {
	r := rewriteImplies(strings.TrimSpace(s))
	return parser.ParseExpr(r)
}

func rewriteImplies(s string) string {
	// process bracket groups recursively
	var b strings.Builder
	i := 0
	var pieces []string // top-level pieces separated by ==>
	flush := func() {
		pieces = append(pieces, b.String())
		b.Reset()
	}
	for i < len(s) {
		c := s[i]
		switch {
		case c == '"':
			j := i + 1
			for j < len(s) && s[j] != '"' {
				if s[j] == '\\' {
					j++
				}
				j++
			}
			b.WriteString(s[i:min(j+1, len(s))])
			i = j + 1
		case c == '(' || c == '[' || c == '{':
			// find the matching bracket
			depth := 0
			j := i
			inStr := false
			for ; j < len(s); j++ {
				d := s[j]
				if inStr {
					if d == '\\' {
						j++
					} else if d == '"' {
						inStr = false
					}
					continue
				}
				if d == '"' {
					inStr = true
				} else if d == '(' || d == '[' || d == '{' {
					depth++
				} else if d == ')' || d == ']' || d == '}' {
					depth--
					if depth == 0 {
						break
					}
				}
			}
			if j >= len(s) {
				b.WriteString(s[i:])
				i = len(s)
				break
			}
			inner := s[i+1 : j]
			var parts []string
			for _, p := range splitTopComma(inner) {
				parts = append(parts, rewriteImplies(p))
			}
			b.WriteByte(c)
			b.WriteString(strings.Join(parts, ","))
			b.WriteByte(s[j])
			i = j + 1
		case strings.HasPrefix(s[i:], "==>"):
			flush()
			i += 3
		default:
			b.WriteByte(c)
			i++
		}
	}
	flush()
	res := strings.TrimSpace(pieces[len(pieces)-1])
	for k := len(pieces) - 2; k >= 0; k-- {
		res = "imp(" + strings.TrimSpace(pieces[k]) + ", " + res + ")"
	}
	return res
}
