package main

// Evaluation of specification expressions (Go expression syntax + spec built-ins) to SMT terms.

import (
	"fmt"
	"sort"
	"go/ast"
	"go/constant"
	"go/token"
	"go/types"
	"strconv"
	"strings"
)

type specError struct{ msg string }

func (e specError) Error() string { return e.msg }

func specFail(format string, a ...interface{}) {
	panic(specError{fmt.Sprintf(format, a...)})
}

type SpecEnv struct {
	g      *Gen
	pkg    *types.Package
	cur    *State
	old    *State
	vars   map[string]T
	locals func(name string, env *SpecEnv) (T, bool)
	iter   func() (T, bool)
	result []T
	depth  int
	fr     *Frame // frame for calling Go functions from specs (may be nil)
	mapIter func() *mapRange
	loopEntry *State // state when the enclosing loop was entered (loop invariants only)
	resultIdx int    // which result of a pure multi-result call is wanted (errof)
	bound  []string // quantified variables in scope (SMT symbols)
	axDepth int     // nesting of spec-function axiom instantiation
}

func (e *SpecEnv) with(name string, v T) *SpecEnv {
	n := *e
	n.vars = make(map[string]T, len(e.vars)+1)
	for k, x := range e.vars {
		n.vars[k] = x
	}
	n.vars[name] = v
	return &n
}

func (e *SpecEnv) inOld() *SpecEnv {
	n := *e
	n.cur = e.old
	return &n
}

// evalClause evaluates a boolean clause, converting spec errors to an error value.
func (e *SpecEnv) evalBool(x ast.Expr) (res T, err error) {
	defer func() {
		if r := recover(); r != nil {
			if se, ok := r.(specError); ok {
				err = se
				return
			}
			panic(r)
		}
	}()
	res = e.eval(x)
	if res.Sort != "Bool" {
		return res, specError{"clause is not boolean: " + exprString(x)}
	}
	return res, nil
}

func (e *SpecEnv) evalAny(x ast.Expr) (res T, err error) {
	defer func() {
		if r := recover(); r != nil {
			if se, ok := r.(specError); ok {
				err = se
				return
			}
			panic(r)
		}
	}()
	res = e.eval(x)
	return res, nil
}

func isOldCall(x ast.Expr) bool {
	for {
		if p, ok := x.(*ast.ParenExpr); ok {
			x = p.X
			continue
		}
		break
	}
	if c, ok := x.(*ast.CallExpr); ok {
		if id, ok := c.Fun.(*ast.Ident); ok && id.Name == "old" {
			return true
		}
	}
	return false
}

func exprString(x ast.Expr) string {
	return types.ExprString(x)
}

func (e *SpecEnv) eval(x ast.Expr) T {
	g := e.g
	switch x := x.(type) {
	case *ast.ParenExpr:
		return e.eval(x.X)
	case *ast.BasicLit:
		switch x.Kind {
		case token.INT:
			v := constant.MakeFromLiteral(x.Value, token.INT, 0)
			n, _ := constant.Int64Val(v)
			return mk(sInt(n), "Int", types.Typ[types.UntypedInt])
		case token.FLOAT:
			return mk(x.Value, "Real", types.Typ[types.UntypedFloat])
		case token.STRING:
			s, err := strconv.Unquote(x.Value)
			if err != nil {
				specFail("bad string literal %s", x.Value)
			}
			return mk(g.strLit(s), "Str", types.Typ[types.String])
		case token.CHAR:
			s, _ := strconv.Unquote(x.Value)
			r := []rune(s)
			return mk(fmt.Sprint(int(r[0])), "Int", types.Typ[types.Rune])
		}
	case *ast.Ident:
		return e.ident(x.Name)
	case *ast.UnaryExpr:
		v := e.eval(x.X)
		switch x.Op {
		case token.NOT:
			return boolT(sNot(v.S))
		case token.SUB:
			if v.Sort == "Real" {
				return mk(app("-", v.S), "Real", v.GT)
			}
			return mk(app("-", v.S), "Int", v.GT)
		case token.ADD:
			return v
		}
	case *ast.BinaryExpr:
		return e.binary(x)
	case *ast.SelectorExpr:
		// qualified identifier?
		if id, ok := x.X.(*ast.Ident); ok {
			if _, isVar := e.lookupVar(id.Name); !isVar {
				if p := e.importedPkg(id.Name); p != nil {
					return e.pkgObject(p, x.Sel.Name)
				}
			}
		}
		base := e.eval(x.X)
		return e.selectField(base, x.Sel.Name)
	case *ast.IndexExpr:
		base := e.eval(x.X)
		idx := e.eval(x.Index)
		if isOldCall(x.X) {
			// old(s)[j]: element j of the old slice in the old heap
			return e.inOld().index(base, idx)
		}
		return e.index(base, idx)
	case *ast.SliceExpr:
		base := e.eval(x.X)
		if base.Sort == "Str" {
			lo, hi := "0", app("str_len", base.S)
			if x.Low != nil {
				lo = e.eval(x.Low).S
			}
			if x.High != nil {
				hi = e.eval(x.High).S
			}
			if g.strTheory {
				return mk(app("str.substr", base.S, lo, sSub(hi, lo)), "Str", base.GT)
			}
			g.declFun("str_sub", []Sort{"Str", "Int", "Int"}, "Str")
			return mk(app("str_sub", base.S, lo, hi), "Str", base.GT)
		}
		if base.Sort != "Slice" {
			specFail("slice expression on non-slice %s", exprString(x.X))
		}
		lo, hi := "0", slLen(base.S)
		if x.Low != nil {
			lo = e.eval(x.Low).S
		}
		if x.High != nil {
			hi = e.eval(x.High).S
		}
		g.resliceLemma(base.GT.Underlying().(*types.Slice).Elem(), slOff(base.S), lo)
		return mk(mkSlice(slBase(base.S), sAdd(slOff(base.S), lo), sSub(hi, lo), sSub(slCap(base.S), lo)), "Slice", base.GT)
	case *ast.StarExpr:
		p := e.eval(x.X)
		pt := derefType(p.GT)
		if pt == nil {
			specFail("dereference of non-pointer %s", exprString(x.X))
		}
		if isStruct(pt) {
			return g.loadStruct(e.cur, p.S, pt)
		}
		return g.load(e.cur, g.cellLoc(p.S, pt))
	case *ast.TypeAssertExpr:
		v := e.eval(x.X)
		t := e.resolveType(x.Type)
		_, unbox := g.boxFns(t)
		return mk(app(unbox, v.S), g.sortOf(t), t)
	case *ast.CallExpr:
		return e.call(x)
	}
	specFail("unsupported spec expression %s (%T)", exprString(x), x)
	return T{}
}

func (e *SpecEnv) lookupVar(name string) (T, bool) {
	if v, ok := e.vars[name]; ok {
		return v, true
	}
	if e.locals != nil {
		if v, ok := e.locals(name, e); ok {
			return v, true
		}
	}
	return T{}, false
}

func (e *SpecEnv) ident(name string) T {
	switch name {
	case "true":
		return tTrue
	case "false":
		return tFalse
	case "nil":
		return mk("0", "Int", types.Typ[types.UntypedNil])
	case "result":
		if len(e.result) == 0 {
			specFail("no result here")
		}
		return e.result[0]
	}
	if strings.HasPrefix(name, "result") {
		if n, err := strconv.Atoi(name[6:]); err == nil {
			if n >= len(e.result) {
				specFail("no result %d", n)
			}
			return e.result[n]
		}
	}
	if v, ok := e.lookupVar(name); ok {
		return v
	}
	if e.pkg != nil {
		if obj := e.pkg.Scope().Lookup(name); obj != nil {
			return e.object(obj)
		}
	}
	if gd, ok := e.g.cs.Ghosts[e.pkgPath()+"::"+name]; ok {
		t := e.resolveType(gd.Type)
		return e.g.load(e.cur, e.g.ghostLoc(e.pkgPath(), name, t))
	}
	specFail("unknown identifier %s", name)
	return T{}
}

func (e *SpecEnv) pkgPath() string {
	if e.pkg == nil {
		return ""
	}
	return e.pkg.Path()
}

func (e *SpecEnv) importedPkg(name string) *types.Package {
	if e.pkg == nil {
		return nil
	}
	if paths, ok := importAliases[e.pkg.Path()][name]; ok {
		// the same alias may name different packages in different files of the package: the
		// caller (pkgObject / resolveType) retries with importedPkgs when the lookup fails
		for _, p := range e.pkg.Imports() {
			if p.Path() == paths[0] {
				return p
			}
		}
	}
	for _, p := range e.pkg.Imports() {
		if p.Name() == name {
			return p
		}
	}
	// fall back: any package of the program with that name (deterministic: shortest path)
	var best *types.Package
	for _, sp := range e.g.prog.AllPackages() {
		if sp.Pkg.Name() == name {
			if best == nil || len(sp.Pkg.Path()) < len(best.Path()) {
				best = sp.Pkg
			}
		}
	}
	return best
}

// importedPkgs: every package an alias may stand for (file-level renames differ per file).
func (e *SpecEnv) importedPkgs(alias string) []*types.Package {
	var out []*types.Package
	if e.pkg == nil {
		return nil
	}
	for _, path := range importAliases[e.pkg.Path()][alias] {
		for _, p := range e.pkg.Imports() {
			if p.Path() == path {
				out = append(out, p)
			}
		}
	}
	return out
}

func (e *SpecEnv) pkgObject(p *types.Package, name string) T {
	obj := p.Scope().Lookup(name)
	if obj == nil {
		for _, alt := range e.importedPkgsOf(p) {
			if o := alt.Scope().Lookup(name); o != nil {
				return e.object(o)
			}
		}
		if gd, ok := e.g.cs.Ghosts[p.Path()+"::"+name]; ok {
			ge := *e
			ge.pkg = p
			t := ge.resolveType(gd.Type)
			return e.g.load(e.cur, e.g.ghostLoc(p.Path(), name, t))
		}
		specFail("unknown object %s.%s", p.Name(), name)
	}
	return e.object(obj)
}

func (e *SpecEnv) object(obj types.Object) T {
	g := e.g
	switch o := obj.(type) {
	case *types.Const:
		return g.constTerm(o.Val(), o.Type())
	case *types.Var:
		return g.load(e.cur, g.globalLoc(shortPkg(o.Pkg())+"."+o.Name(), o.Type()))
	case *types.Nil:
		return mk("0", "Int", types.Typ[types.UntypedNil])
	}
	specFail("object %s cannot be used in a specification", obj.Name())
	return T{}
}

func (g *Gen) constTerm(v constant.Value, t types.Type) T {
	sort := g.sortOf(t)
	if v == nil {
		return g.zero(t)
	}
	switch v.Kind() {
	case constant.Bool:
		if constant.BoolVal(v) {
			return mk("true", "Bool", t)
		}
		return mk("false", "Bool", t)
	case constant.String:
		return mk(g.strLit(constant.StringVal(v)), "Str", t)
	case constant.Int:
		if sort == "Real" {
			f, _ := constant.Float64Val(v)
			return mk(realLit(f), "Real", t)
		}
		if n, ok := constant.Int64Val(v); ok {
			return mk(sInt(n), "Int", t)
		}
		s := v.ExactString()
		if strings.HasPrefix(s, "-") {
			return mk("(- "+s[1:]+")", "Int", t)
		}
		return mk(s, "Int", t)
	case constant.Float:
		f, _ := constant.Float64Val(v)
		if sort == "Int" {
			return mk(sInt(int64(f)), "Int", t)
		}
		return mk(realLit(f), "Real", t)
	}
	return mk("0", sort, t)
}

func realLit(f float64) string {
	s := strconv.FormatFloat(f, 'f', -1, 64)
	if !strings.Contains(s, ".") {
		s += ".0"
	}
	if strings.HasPrefix(s, "-") {
		return "(- " + s[1:] + ")"
	}
	return s
}

func isNilT(t T) bool {
	if b, ok := t.GT.(*types.Basic); ok && b.Kind() == types.UntypedNil {
		return true
	}
	return false
}

func (e *SpecEnv) binary(x *ast.BinaryExpr) T {
	switch x.Op {
	case token.LAND:
		return boolT(sAnd(e.eval(x.X).S, e.eval(x.Y).S))
	case token.LOR:
		return boolT(sOr(e.eval(x.X).S, e.eval(x.Y).S))
	}
	a, b := e.eval(x.X), e.eval(x.Y)
	return e.g.binop(x.Op, a, b)
}

// binop implements Go binary operators on terms (shared with the SSA translation).
func (g *Gen) binop(op token.Token, a, b T) T {
	switch op {
	case token.EQL, token.NEQ:
		var r string
		switch {
		case a.Sort == "Slice" && (isNilT(b) || b.S == "(mk-slice 0 0 0 0)"):
			r = sEq(slBase(a.S), "0")
		case b.Sort == "Slice" && (isNilT(a) || a.S == "(mk-slice 0 0 0 0)"):
			r = sEq(slBase(b.S), "0")
		case a.Sort == "Real" && b.Sort == "Int":
			r = sEq(a.S, app("to_real", b.S))
		case a.Sort == "Int" && b.Sort == "Real":
			r = sEq(app("to_real", a.S), b.S)
		default:
			r = sEq(a.S, b.S)
		}
		if op == token.NEQ {
			r = sNot(r)
		}
		return boolT(r)
	case token.LSS, token.LEQ, token.GTR, token.GEQ:
		ops := map[token.Token]string{token.LSS: "<", token.LEQ: "<=", token.GTR: ">", token.GEQ: ">="}
		if a.Sort == "Str" {
			switch op {
			case token.LSS:
				return boolT(app("str_lt", a.S, b.S))
			case token.GTR:
				return boolT(app("str_lt", b.S, a.S))
			case token.LEQ:
				return boolT(sNot(app("str_lt", b.S, a.S)))
			default:
				return boolT(sNot(app("str_lt", a.S, b.S)))
			}
		}
		as, bs := a.S, b.S
		if a.Sort == "Real" && b.Sort == "Int" {
			bs = app("to_real", bs)
		} else if a.Sort == "Int" && b.Sort == "Real" {
			as = app("to_real", as)
		}
		return boolT(app(ops[op], as, bs))
	case token.ADD:
		if a.Sort == "Str" {
			return mk(app("str_concat", a.S, b.S), "Str", a.GT)
		}
		if a.Sort == "Real" || b.Sort == "Real" {
			return mk(app("+", toReal(a), toReal(b)), "Real", pickType(a, b))
		}
		return mk(sAdd(a.S, b.S), "Int", pickType(a, b))
	case token.SUB:
		if a.Sort == "Real" || b.Sort == "Real" {
			return mk(app("-", toReal(a), toReal(b)), "Real", pickType(a, b))
		}
		return mk(sSub(a.S, b.S), "Int", pickType(a, b))
	case token.MUL:
		if a.Sort == "Real" || b.Sort == "Real" {
			return mk(app("*", toReal(a), toReal(b)), "Real", pickType(a, b))
		}
		return mk(app("*", a.S, b.S), "Int", pickType(a, b))
	case token.QUO:
		if a.Sort == "Real" || b.Sort == "Real" {
			return mk(app("/", toReal(a), toReal(b)), "Real", pickType(a, b))
		}
		return mk(app("godiv", a.S, b.S), "Int", pickType(a, b))
	case token.REM:
		return mk(app("gomod", a.S, b.S), "Int", pickType(a, b))
	}
	// bit operations and shifts: uninterpreted
	name := "bitop_" + strings.Map(func(r rune) rune {
		switch r {
		case '&':
			return 'a'
		case '|':
			return 'o'
		case '^':
			return 'x'
		case '<':
			return 'l'
		case '>':
			return 'r'
		}
		return r
	}, op.String())
	g.declFun(name, []Sort{"Int", "Int"}, "Int")
	g.note("bit operation %s is uninterpreted", op)
	return mk(app(name, a.S, b.S), "Int", pickType(a, b))
}

func toReal(a T) string {
	if a.Sort == "Int" {
		if isIntLit(a.S) {
			return a.S + ".0"
		}
		return app("to_real", a.S)
	}
	return a.S
}

func pickType(a, b T) types.Type {
	if a.GT != nil {
		if bt, ok := a.GT.(*types.Basic); !ok || bt.Info()&types.IsUntyped == 0 {
			return a.GT
		}
	}
	if b.GT != nil {
		return b.GT
	}
	return a.GT
}

func (e *SpecEnv) selectField(base T, name string) T {
	g := e.g
	if base.GT == nil {
		specFail("selector .%s on untyped term", name)
	}
	obj, path, _ := types.LookupFieldOrMethod(base.GT, true, e.pkg, name)
	if obj == nil {
		// unexported field of another package: look it up in the type's own package
		if n := namedOf(base.GT); n != nil && n.Obj().Pkg() != nil {
			obj, path, _ = types.LookupFieldOrMethod(base.GT, true, n.Obj().Pkg(), name)
		}
	}
	v, ok := obj.(*types.Var)
	if !ok || !v.IsField() {
		specFail("no field %s in %s", name, typeKey(base.GT))
	}
	cur := base
	var loc *Loc
	for _, idx := range path {
		var ct types.Type
		if loc != nil {
			ct = loc.T
		} else {
			ct = cur.GT
		}
		if pt := derefType(ct); pt != nil && isStruct(pt) {
			// pointer to struct: need the reference value
			ref := cur.S
			if loc != nil {
				ref = g.load(e.cur, loc).S
			}
			loc = g.fieldLoc(ref, pt, idx)
		} else if isStruct(ct) {
			if loc != nil {
				loc = g.subLoc(loc, ct, idx)
			} else {
				// struct value term
				u := ct.Underlying().(*types.Struct)
				cur = mk(app(g.structAcc(ct, idx), cur.S), g.sortOf(u.Field(idx).Type()), u.Field(idx).Type())
			}
		} else {
			specFail("cannot select .%s from %s", name, typeKey(ct))
		}
	}
	if loc != nil {
		return g.load(e.cur, loc)
	}
	return cur
}

func namedOf(t types.Type) *types.Named {
	for {
		switch u := t.(type) {
		case *types.Named:
			return u
		case *types.Pointer:
			t = u.Elem()
		case *types.Alias:
			t = types.Unalias(u)
		default:
			return nil
		}
	}
}

func (e *SpecEnv) index(base, idx T) T {
	g := e.g
	if base.GT == nil {
		specFail("index on untyped term")
	}
	switch u := base.GT.Underlying().(type) {
	case *types.Slice:
		return g.sliceElem(e.cur, base, idx.S)
	case *types.Map:
		if strings.HasPrefix(base.Sort, "(Array") {
			// ghost map: a mathematical total map (value array)
			return mk(sel(base.S, idx.S), g.sortOf(u.Elem()), u.Elem())
		}
		v, has := g.mapLookup(e.cur, base, idx.S)
		return mk(sIte(has, v.S, g.zero(u.Elem()).S), v.Sort, v.GT)
	case *types.Array:
		return mk(sel(base.S, idx.S), g.sortOf(u.Elem()), u.Elem())
	case *types.Basic:
		if base.Sort == "Str" {
			g.declFun("str_at", []Sort{"Str", "Int"}, "Int")
			return mk(app("str_at", base.S, idx.S), "Int", types.Typ[types.Byte])
		}
	}
	specFail("cannot index %s", typeKey(base.GT))
	return T{}
}

// resolveType resolves a Go type expression in the environment's package.
func (e *SpecEnv) resolveType(x ast.Expr) types.Type {
	switch x := x.(type) {
	case *ast.Ident:
		if t := types.Universe.Lookup(x.Name); t != nil {
			if tn, ok := t.(*types.TypeName); ok {
				return tn.Type()
			}
		}
		if e.pkg != nil {
			if o := e.pkg.Scope().Lookup(x.Name); o != nil {
				if tn, ok := o.(*types.TypeName); ok {
					return tn.Type()
				}
			}
		}
		specFail("unknown type %s", x.Name)
	case *ast.SelectorExpr:
		if id, ok := x.X.(*ast.Ident); ok {
			if p := e.importedPkg(id.Name); p != nil {
				if o := p.Scope().Lookup(x.Sel.Name); o != nil {
					if tn, ok := o.(*types.TypeName); ok {
						return tn.Type()
					}
				}
			}
			// the alias names another package in another file of this package
			for _, p := range e.importedPkgs(id.Name) {
				if o := p.Scope().Lookup(x.Sel.Name); o != nil {
					if tn, ok := o.(*types.TypeName); ok {
						return tn.Type()
					}
				}
			}
		}
		specFail("unknown type %s", exprString(x))
	case *ast.StarExpr:
		return types.NewPointer(e.resolveType(x.X))
	case *ast.ArrayType:
		if x.Len == nil {
			return types.NewSlice(e.resolveType(x.Elt))
		}
	case *ast.MapType:
		return types.NewMap(e.resolveType(x.Key), e.resolveType(x.Value))
	case *ast.ParenExpr:
		return e.resolveType(x.X)
	case *ast.InterfaceType:
		return types.NewInterfaceType(nil, nil)
	case *ast.FuncType:
		mkTuple := func(fl *ast.FieldList) *types.Tuple {
			if fl == nil {
				return nil
			}
			var vs []*types.Var
			for _, fld := range fl.List {
				t := e.resolveType(fld.Type)
				n := len(fld.Names)
				if n == 0 {
					n = 1
				}
				for i := 0; i < n; i++ {
					vs = append(vs, types.NewVar(0, nil, "", t))
				}
			}
			return types.NewTuple(vs...)
		}
		return types.NewSignatureType(nil, nil, nil, mkTuple(x.Params), mkTuple(x.Results), false)
	}
	specFail("unsupported type expression %s", exprString(x))
	return nil
}

func (e *SpecEnv) isTypeExpr(x ast.Expr) (t types.Type, ok bool) {
	defer func() {
		if r := recover(); r != nil {
			if _, se := r.(specError); se {
				ok = false
				return
			}
			panic(r)
		}
	}()
	switch x := x.(type) {
	case *ast.Ident:
		if _, isVar := e.lookupVar(x.Name); isVar {
			return nil, false
		}
	case *ast.SelectorExpr, *ast.StarExpr, *ast.ArrayType, *ast.MapType, *ast.ParenExpr, *ast.InterfaceType:
	default:
		return nil, false
	}
	t = e.resolveType(x)
	return t, t != nil
}

func (e *SpecEnv) quant(kind string, x *ast.CallExpr) T {
	if len(x.Args) == 2 || len(x.Args) == 3 {
		// forall(k, body) / forall(k, Type, body): unbounded quantification. Directly nested
		// quantifiers of the same kind are merged into one binder with a multi-pattern.
		inner := e
		var vars, sorts []string
		cur := x
		var bodyExpr ast.Expr
		for {
			id, ok := cur.Args[0].(*ast.Ident)
			if !ok {
				specFail("%s: first argument must be an identifier", kind)
			}
			var t types.Type = types.Typ[types.Int]
			if len(cur.Args) == 3 {
				t = inner.resolveType(cur.Args[1])
			}
			sort := e.g.sortOf(t)
			bvq := quote(fmt.Sprintf("%s!q%d", id.Name, e.g.nextQ()))
			e.g.noteBound(bvq, sort)
			bound := append(append([]string{}, inner.bound...), bvq)
			inner = inner.with(id.Name, mk(bvq, sort, t))
			inner.bound = bound
			vars = append(vars, bvq)
			sorts = append(sorts, sort)
			bodyExpr = cur.Args[len(cur.Args)-1]
			if c, ok := bodyExpr.(*ast.CallExpr); ok {
				if cid, ok := c.Fun.(*ast.Ident); ok && cid.Name == kind && (len(c.Args) == 2 || len(c.Args) == 3) {
					cur = c
					continue
				}
			}
			break
		}
		body := inner.eval(bodyExpr)
		var binders []string
		for i := range vars {
			binders = append(binders, "("+vars[i]+" "+sorts[i]+")")
		}
		q := "forall"
		if kind != "forall" {
			q = "exists"
		}
		pat := ""
		if kind == "forall" && len(vars) > 1 {
			var ps []string
			for _, v := range vars {
				bp := barePatterns(body.S, v)
				if len(bp) == 0 {
					ps = nil
					break
				}
				ps = append(ps, bp[0])
			}
			if len(ps) == len(vars) {
				pat = " :pattern (" + strings.Join(ps, " ") + ")"
			}
		}
		if pat != "" {
			return boolT("(" + q + " (" + strings.Join(binders, " ") + ") (! " + body.S + pat + "))")
		}
		return boolT("(" + q + " (" + strings.Join(binders, " ") + ") " + body.S + ")")
	}
	if len(x.Args) != 4 {
		specFail("%s(var, lo, hi, body)", kind)
	}
	id, ok := x.Args[0].(*ast.Ident)
	if !ok {
		specFail("%s: first argument must be an identifier", kind)
	}
	lo, hi := e.eval(x.Args[1]), e.eval(x.Args[2])
	e.depth++
	bv := fmt.Sprintf("%s!q%d", id.Name, e.g.nextQ())
	bvq := quote(bv)
	e.g.noteBound(bvq, "Int")
	inner := e.with(id.Name, mk(bvq, "Int", types.Typ[types.Int]))
	inner.bound = append(append([]string{}, e.bound...), bvq)
	body := inner.eval(x.Args[3])
	rng := sAnd(sLe(lo.S, bvq), sLt(bvq, hi.S))
	if kind == "forall" {
		return boolT(sForallPat(bvq, sImp(rng, body.S), body.S))
	}
	return boolT(sExists(bvq, sAnd(rng, body.S)))
}

func (g *Gen) nextQ() int { g.freshN++; return g.freshN }

func (e *SpecEnv) call(x *ast.CallExpr) T {
	g := e.g
	if id, ok := x.Fun.(*ast.Ident); ok {
		if _, shadow := e.lookupVar(id.Name); !shadow {
			switch id.Name {
			case "old":
				return e.inOld().eval(x.Args[0])
			case "atloop":
				// atloop(e): the value of e when the enclosing loop was entered
				if e.loopEntry == nil {
					specFail("atloop() outside a loop invariant")
				}
				n := *e
				n.cur = e.loopEntry
				return n.eval(x.Args[0])
			case "entries":
				// entries(m): the whole content of map m (keys and values) as one value; `==` compares it,
				// e.g. entries(m) == atloop(entries(m)) says the loop has not touched m so far
				v := e.eval(x.Args[0])
				mt, ok := v.GT.Underlying().(*types.Map)
				if !ok || strings.HasPrefix(string(v.Sort), "(Array") {
					specFail("entries() expects a (non-ghost) map")
				}
				va, ha, ks, vs := e.g.mapArrs(mt)
				vsort, hsort := Sort(fmt.Sprintf("(Array %s %s)", ks, vs)), Sort(fmt.Sprintf("(Array %s Bool)", ks))
				mv := sel(e.g.arr(e.cur, va, vsort), v.S)
				mh := sel(e.g.arr(e.cur, ha, hsort), v.S)
				e.g.declareEntriesPair(vsort, hsort)
				return mk(app(quote("entries:"+string(vsort)), mv, mh), Sort(quote("Entries:"+string(vsort))), nil)
			case "imp":
				return boolT(sImp(e.eval(x.Args[0]).S, e.eval(x.Args[1]).S))
			case "iff":
				return boolT(sEq(e.eval(x.Args[0]).S, e.eval(x.Args[1]).S))
			case "ite":
				c, a, b := e.eval(x.Args[0]), e.eval(x.Args[1]), e.eval(x.Args[2])
				return mk(sIte(c.S, a.S, b.S), a.Sort, pickType(a, b))
			case "forall", "exists":
				return e.quant(id.Name, x)
			case "len":
				v := e.eval(x.Args[0])
				switch v.GT.Underlying().(type) {
				case *types.Slice:
					return intT(slLen(v.S))
				case *types.Map:
					ground := true
					for _, bv := range e.bound {
						if strings.Contains(v.S, bv) {
							ground = false
						}
					}
					if ground {
						g.cardFacts(e.cur, v, "true")
					}
					return intT(g.mapCard(e.cur, v))
				case *types.Array:
					return intT(fmt.Sprint(v.GT.Underlying().(*types.Array).Len()))
				}
				if v.Sort == "Str" {
					return intT(app("str_len", v.S))
				}
				specFail("len of %s", typeKey(v.GT))
			case "cap":
				return intT(slCap(e.eval(x.Args[0]).S))
			case "base":
				return intT(slBase(e.eval(x.Args[0]).S))
			case "off":
				return intT(slOff(e.eval(x.Args[0]).S))
			case "has":
				m, k := e.eval(x.Args[0]), e.eval(x.Args[1])
				_, h := g.mapLookup(e.cur, m, k.S)
				return boolT(h)
			case "card":
				return intT(g.mapCard(e.cur, e.eval(x.Args[0])))
			case "sameseq":
				a, b := e.eval(x.Args[0]), e.eval(x.Args[1])
				j := quote(fmt.Sprintf("j!q%d", g.nextQ()))
				ea := g.sliceElem(e.cur, a, j)
				// b may come from the old state: it was evaluated already; element reads must use
				// the state it was evaluated in.
				eb := e.elemIn(x.Args[1], b, j)
				return boolT(sAnd(sEq(slLen(a.S), slLen(b.S)),
					sForallPat(j, sImp(sAnd(sLe("0", j), sLt(j, slLen(a.S))), sEq(ea.S, eb.S)), sEq(ea.S, eb.S))))
			case "fresh":
				v := e.eval(x.Args[0])
				ref := v.S
				if v.Sort == "Slice" {
					ref = slBase(v.S)
				}
				return boolT(sAnd(sLe(e.old.next, ref), sLt(ref, e.cur.next)))
			case "seqof":
				// seqof(s): the elements of slice s as a mathematical sequence (a value: index ->
				// element), independent of later changes of the heap
				v := e.eval(x.Args[0])
				sl, ok := v.GT.Underlying().(*types.Slice)
				if !ok {
					specFail("seqof() of a non-slice")
				}
				arr, es := e.g.elemsArr(sl.Elem())
				inner := sel(e.g.arr(e.cur, arr, es), slBase(v.S))
				return mk(app(e.g.shiftFn(es), inner, slOff(v.S)), es, types.NewMap(types.Typ[types.Int], sl.Elem()))
			case "storage":
				// storage(s): the whole backing array of slice s as one value (== compares it)
				v := e.eval(x.Args[0])
				sl, ok := v.GT.Underlying().(*types.Slice)
				if !ok {
					specFail("storage() of a non-slice")
				}
				arr, es := e.g.elemsArr(sl.Elem())
				return mk(sel(e.g.arr(e.cur, arr, es), slBase(v.S)), es, nil)
			case "allocated":
				v := e.eval(x.Args[0])
				ref := v.S
				if v.Sort == "Slice" {
					ref = slBase(v.S)
				}
				return boolT(sLt(ref, e.cur.next))
			case "iter":
				if e.iter == nil {
					specFail("iter() outside a loop invariant")
				}
				v, ok := e.iter()
				if !ok {
					specFail("iter(): the loop has no range index")
				}
				return v
			case "keyseq", "nvisited":
				if e.mapIter == nil {
					specFail("%s() outside a range-over-map loop invariant", id.Name)
				}
				mr := e.mapIter()
				if mr == nil {
					specFail("%s(): no map iteration found for this loop", id.Name)
				}
				mt := mr.m.GT.Underlying().(*types.Map)
				if id.Name == "nvisited" {
					return intT(sel(g.arr(e.cur, "IterCnt", "Int"), mr.it))
				}
				ksSort := fmt.Sprintf("(Array Int %s)", g.sortOf(mt.Key()))
				return mk(mr.ord, ksSort, types.NewMap(types.Typ[types.Int], mt.Key()))
			case "errof", "second":
				// errof(f(args)): the second result of a pure function
				c, ok := x.Args[0].(*ast.CallExpr)
				if !ok {
					specFail("%s(call)", id.Name)
				}
				n := *e
				n.resultIdx = 1
				return n.call(c)
			case "nolocks":
				// no mutex is held at this point (symbolic lock set of the current state)
				if len(e.cur.held) == 0 {
					return tTrue
				}
				return tFalse
			case "ctxfresh":
				return boolT(sel(g.arr(e.cur, ctxFreshArr, "Bool"), "0"))
			case "ctxdone":
				return boolT(sel(g.arr(e.cur, ctxDoneArr, "Bool"), "0"))
			case "isint":
				v := e.eval(x.Args[0])
				if v.Sort != "Real" {
					return tTrue
				}
				return boolT(app("is_int", v.S))
			case "visited":
				// visited(k): key k was already produced by the enclosing range-over-map loop
				if e.mapIter == nil {
					specFail("visited() outside a range-over-map loop invariant")
				}
				mr := e.mapIter()
				if mr == nil {
					specFail("visited(): no map iteration found for this loop")
				}
				k := e.eval(x.Args[0])
				mt := mr.m.GT.Underlying().(*types.Map)
				hsort := fmt.Sprintf("(Array %s Bool)", g.sortOf(mt.Key()))
				return boolT(sel(sel(g.arr(e.cur, "IterSeen:"+typeKey(mt.Key()), hsort), mr.it), k.S))
			case "dyntype":
				v := e.eval(x.Args[0])
				t := e.resolveType(x.Args[1])
				return boolT(sEq(app("tagOf", v.S), g.typeTag(t)))
			case "implements":
				// implements(x, I): x is non-nil and its dynamic type implements interface I
				v := e.eval(x.Args[0])
				t := e.resolveType(x.Args[1])
				return boolT(g.implements(v.S, t))
			case "held":
				// held(x.m): the mutex field m of x is in the symbolic lock set of the current state
				// (syntactic: the same object term as at the Lock call)
				sel, ok := x.Args[0].(*ast.SelectorExpr)
				if !ok {
					specFail("held(x.m) expects a field selector")
				}
				base := e.eval(sel.X)
				l := e.fieldLocOf(base, sel.Sel.Name)
				if l == nil {
					specFail("held(%s): not a field", exprString(x.Args[0]))
				}
				if e.cur != nil && e.cur.held[l.arr+"@"+l.ref] {
					return boolT("true")
				}
				return boolT("false")
			}
			// predicate or spec function
			if p := e.findPred(id.Name); p != nil {
				return e.applyPred(p, x.Args)
			}
			// conversion T(x)
			if t, ok := e.isTypeExpr(x.Fun); ok && len(x.Args) == 1 {
				return e.convert(e.eval(x.Args[0]), t)
			}
			// package-level Go function called from a spec
			if e.pkg != nil {
				if fo, ok := e.pkg.Scope().Lookup(id.Name).(*types.Func); ok {
					return e.callGoFunc(fo, nil, x.Args)
				}
				// dot-imported packages
				for _, ip := range e.pkg.Imports() {
					if !strings.HasPrefix(ip.Path(), strings.TrimSuffix(modulePath, "/")) {
						continue
					}
					if fo, ok := ip.Scope().Lookup(id.Name).(*types.Func); ok && fo.Exported() {
						return e.callGoFunc(fo, nil, x.Args)
					}
				}
			}
			specFail("unknown function %s", id.Name)
		}
	}
	if sx, ok := x.Fun.(*ast.SelectorExpr); ok {
		// pkg.Func(...) or pkg.Type(...)
		if id, ok := sx.X.(*ast.Ident); ok {
			if _, isVar := e.lookupVar(id.Name); !isVar {
				if p := e.importedPkg(id.Name); p != nil {
					obj := p.Scope().Lookup(sx.Sel.Name)
					switch o := obj.(type) {
					case *types.TypeName:
						return e.convert(e.eval(x.Args[0]), o.Type())
					case *types.Func:
						return e.callGoFunc(o, nil, x.Args)
					}
					if pr := e.g.cs.Preds[p.Path()+"::"+sx.Sel.Name]; pr != nil {
						return e.applyPred(pr, x.Args)
					}
					specFail("unknown function %s.%s", id.Name, sx.Sel.Name)
				}
			}
		}
		// method call
		recv := e.eval(sx.X)
		obj, _, _ := types.LookupFieldOrMethod(recv.GT, true, e.pkg, sx.Sel.Name)
		if obj == nil {
			if n := namedOf(recv.GT); n != nil && n.Obj().Pkg() != nil {
				obj, _, _ = types.LookupFieldOrMethod(recv.GT, true, n.Obj().Pkg(), sx.Sel.Name)
			}
		}
		if fo, ok := obj.(*types.Func); ok {
			return e.callGoFunc(fo, &recv, x.Args)
		}
		// field of function type: uninterpreted application
		if v, ok := obj.(*types.Var); ok && v.IsField() {
			fv := e.selectField(recv, sx.Sel.Name)
			return e.applyFuncValue(fv, x.Args)
		}
		specFail("unknown method %s on %s", sx.Sel.Name, typeKey(recv.GT))
	}
	if t, ok := e.isTypeExpr(x.Fun); ok && len(x.Args) == 1 {
		return e.convert(e.eval(x.Args[0]), t)
	}
	// call of a function-typed value (parameter)
	fv := e.eval(x.Fun)
	return e.applyFuncValue(fv, x.Args)
}

// elemIn evaluates element j of slice term s; if the source expression is old(...), the read is
// done in the old state.
func (e *SpecEnv) elemIn(src ast.Expr, s T, j string) T {
	if c, ok := src.(*ast.CallExpr); ok {
		if id, ok := c.Fun.(*ast.Ident); ok && id.Name == "old" {
			return e.g.sliceElem(e.old, s, j)
		}
	}
	return e.g.sliceElem(e.cur, s, j)
}

func (e *SpecEnv) convert(v T, t types.Type) T {
	ns := e.g.sortOf(t)
	if ns == v.Sort {
		return mk(v.S, ns, t)
	}
	if ns == "Real" && v.Sort == "Int" {
		return mk(toReal(v), ns, t)
	}
	if ns == "Int" && v.Sort == "Real" {
		return mk(app("to_int", v.S), ns, t)
	}
	specFail("unsupported conversion %s -> %s", v.Sort, ns)
	return T{}
}

// applyFuncValue: application of a function value (closure) inside a specification. Function
// values are modelled as pure functions of (closure, arguments) — see assumption A-funcval.
func (e *SpecEnv) applyFuncValue(fv T, args []ast.Expr) T {
	sig, ok := fv.GT.Underlying().(*types.Signature)
	if !ok {
		specFail("call of non-function value")
	}
	var as []T
	for _, a := range args {
		as = append(as, e.eval(a))
	}
	return e.g.applyFuncValue(fv.S, sig, as)
}

func (g *Gen) applyFuncValue(fv string, sig *types.Signature, args []T) T {
	var rs Sort = "Int"
	var rt types.Type
	if sig.Results().Len() >= 1 {
		rt = sig.Results().At(0).Type()
		rs = g.sortOf(rt)
	}
	// the name depends on parameter and result types only (not on parameter names)
	var pts []string
	for i := 0; i < sig.Params().Len(); i++ {
		pts = append(pts, typeKey(sig.Params().At(i).Type()))
	}
	name := "callfn:func(" + strings.Join(pts, ",") + ")"
	for i := 0; i < sig.Results().Len(); i++ {
		name += " " + typeKey(sig.Results().At(i).Type())
	}
	sorts := []Sort{"Int"}
	strs := []string{fv}
	for _, a := range args {
		sorts = append(sorts, a.Sort)
		strs = append(strs, a.S)
	}
	qn := quote(name)
	g.declFun(qn, sorts, rs)
	g.assumeNote("A-funcval: function values called in verified code are deterministic functions of (closure, arguments) without effect on the modelled heap")
	return mk(app(qn, strs...), rs, rt)
}

func (e *SpecEnv) findPred(name string) *Pred {
	if p := e.g.cs.Preds[e.pkgPath()+"::"+name]; p != nil {
		return p
	}
	return e.g.cs.Preds[name]
}

func (e *SpecEnv) applyPred(p *Pred, args []ast.Expr) T {
	if len(args) != len(p.Params) {
		specFail("%s expects %d arguments", p.Name, len(p.Params))
	}
	var as []T
	for _, a := range args {
		if isOldCall(a) && e.cur != e.old {
			specFail("%s(old(...)): wrap the whole application in old(...) — predicates read the heap of the state they are evaluated in", p.Name)
		}
		as = append(as, e.eval(a))
	}
	return e.applyPredT(p, as)
}

func (e *SpecEnv) applyPredT(p *Pred, as []T) T {
	g := e.g
	// environment of the declaring package
	declPkg := e.pkg
	if p.Pkg != e.pkgPath() {
		for _, sp := range g.prog.AllPackages() {
			if sp.Pkg.Path() == p.Pkg {
				declPkg = sp.Pkg
			}
		}
	}
	penv := &SpecEnv{g: g, pkg: declPkg, cur: e.cur, old: e.old, vars: map[string]T{}, depth: e.depth + 1, fr: e.fr, iter: nil, bound: e.bound, axDepth: e.axDepth, mapIter: e.mapIter}
	if e.depth > 20 {
		specFail("predicate nesting too deep at %s", p.Name)
	}
	for i, pd := range p.Params {
		t := penv.resolveType(pd.Type)
		a := as[i]
		if isNilT(a) {
			a = g.zero(t)
		}
		a.GT = t
		penv.vars[pd.Name] = a
	}
	if p.Body != nil {
		return penv.eval(p.Body)
	}
	// uninterpreted spec function (heap independent)
	var rs Sort = "Bool"
	var rt types.Type = types.Typ[types.Bool]
	if p.Result != nil {
		rt = penv.resolveType(p.Result)
		rs = g.sortOf(rt)
	}
	if g.inSpecReads[p] {
		// dry evaluation (collecting heap reads): nested applications are placeholders
		return mk(g.freshConst("specph", rs), rs, rt)
	}
	var sorts []Sort
	var strs []string
	for _, a := range as {
		sorts = append(sorts, a.Sort)
		strs = append(strs, a.S)
		// heap dependence: the content of slice and map arguments is an implicit argument
		if a.GT != nil {
			switch u := a.GT.Underlying().(type) {
			case *types.Slice:
				arr, es := g.elemsArr(u.Elem())
				sorts = append(sorts, es)
				strs = append(strs, sel(g.arr(e.cur, arr, es), slBase(a.S)))
			case *types.Map:
				if strings.HasPrefix(a.Sort, "(Array") {
					break // ghost map: passed by value
				}
				va, ha, ks, vs := g.mapArrs(u)
				vsort, hsort := fmt.Sprintf("(Array %s %s)", ks, vs), fmt.Sprintf("(Array %s Bool)", ks)
				sorts = append(sorts, vsort, hsort)
				strs = append(strs, sel(g.arr(e.cur, va, vsort), a.S), sel(g.arr(e.cur, ha, hsort), a.S))
			}
		}
	}
	// other heap arrays the axioms read (fields, cells, globals) are implicit arguments too, so
	// that the function is a function of everything its definition depends on
	if len(p.Axioms) > 0 {
		for _, name := range g.specReads(p, penv) {
			es := g.arrReg[name]
			sorts = append(sorts, "(Array Int "+es+")")
			strs = append(strs, g.arr(e.cur, name, es))
		}
	}
	name := quote("spec:" + p.Name)
	g.declFun(name, sorts, rs)
	res := mk(app(name, strs...), rs, rt)
	// axioms are instantiated at this application — only for ground arguments (no quantified
	// variable), and recursive definitions are unfolded one level (DESIGN 5.4)
	ground := true
	for _, a := range strs {
		for _, bv := range e.bound {
			if strings.Contains(a, bv) {
				ground = false
			}
		}
	}
	if !ground || e.axDepth >= 2 {
		return res
	}
	for _, ax := range p.Axioms {
		aenv := *penv
		aenv.axDepth = e.axDepth + 1
		aenv.vars = map[string]T{}
		for k, v := range penv.vars {
			aenv.vars[k] = v
		}
		aenv.vars["result"] = res
		aenv.result = []T{res}
		key := "axiom:" + p.Name + ":" + ax.Text + ":" + strings.Join(strs, ",")
		if g.axiomDone[key] {
			continue
		}
		g.axiomDone[key] = true
		g.axiomLog = append(g.axiomLog, key)
		g.globalMode++
		v := aenv.eval(ax.Expr)
		g.assert(v.S)
		g.globalMode--
	}
	return res
}

// specReads determines (once per spec function) which field/cell/global heap arrays the axioms
// of p read: a dry evaluation with a placeholder result.
func (g *Gen) specReads(p *Pred, penv *SpecEnv) []string {
	if r, ok := g.specReadCache[p]; ok {
		return r
	}
	g.inSpecReads[p] = true
	defer delete(g.inSpecReads, p)
	snap := g.snapshot()
	saved := g.readLog
	g.readLog = map[string]bool{}
	func() {
		defer func() {
			if r := recover(); r != nil {
				if _, ok := r.(specError); !ok {
					panic(r)
				}
			}
		}()
		var rs Sort = "Bool"
		var rt types.Type = types.Typ[types.Bool]
		if p.Result != nil {
			rt = penv.resolveType(p.Result)
			rs = g.sortOf(rt)
		}
		ph := mk(g.freshConst("specph", rs), rs, rt)
		aenv := *penv
		aenv.axDepth = 5 // no nested instantiation
		aenv.vars = map[string]T{}
		for k, v := range penv.vars {
			aenv.vars[k] = v
		}
		aenv.vars["result"] = ph
		aenv.result = []T{ph}
		for _, ax := range p.Axioms {
			aenv.eval(ax.Expr)
		}
	}()
	var out []string
	for n := range g.readLog {
		if strings.HasPrefix(n, "F:") || strings.HasPrefix(n, "Cell:") || strings.HasPrefix(n, "G:") {
			out = append(out, n)
		}
	}
	sort.Strings(out)
	g.readLog = saved
	g.restore(snap)
	g.specReadCache[p] = out
	return out
}

// callGoFunc: a Go function or method used inside a specification. It must be declared pure
// (uninterpreted function of its arguments) or `inline` (symbolically executed, heap reads
// allowed, no writes).
func (e *SpecEnv) callGoFunc(fo *types.Func, recv *T, args []ast.Expr) T {
	g := e.g
	var as []T
	if recv != nil {
		as = append(as, *recv)
	}
	for _, a := range args {
		as = append(as, e.eval(a))
	}
	key := funcKey(fo)
	if g.strTheory && fo.Pkg() != nil {
		if r, ok := g.stringExtern(fo.Pkg().Path()+"."+fo.Name(), as); ok {
			return r
		}
	}
	if g.cs.Pure[key] {
		return g.pureAppN(fo, as, e.resultIdx)
	}
	if e.fr != nil {
		if sf := g.prog.FuncValue(fo); sf != nil && sf.Blocks != nil {
			fc := g.cs.Funcs[contractKeyOf(sf)]
			for _, a := range as {
				for _, bv := range e.bound {
					if strings.Contains(a.S, bv) {
						specFail("Go function %s cannot be executed symbolically under a quantifier: use a spec function tied to it by a contract", key)
					}
				}
			}
			if (fc != nil && fc.Inline) || (inRepo(sf) && loopFree(sf)) {
				res, ok := e.fr.specInline(sf, as, e.cur)
				if ok {
					return res
				}
			}
		}
	}
	specFail("function %s is neither pure nor inline; cannot be used in a specification", key)
	return T{}
}

// funcKey: "<recv type>.<name>" for methods, "<pkg>.<name>" for functions.
func funcKey(fo *types.Func) string {
	sig := fo.Type().(*types.Signature)
	if r := sig.Recv(); r != nil {
		return typeKey(r.Type()) + "." + fo.Name()
	}
	return shortPkg(fo.Pkg()) + "." + fo.Name()
}

// pureAppN: result number idx of a pure function with several results.
func (g *Gen) pureAppN(fo *types.Func, as []T, idx int) T {
	if idx == 0 {
		return g.pureApp(fo, as)
	}
	sig := fo.Type().(*types.Signature)
	rt := sig.Results().At(idx).Type()
	rs := g.sortOf(rt)
	var sorts []Sort
	var strs []string
	for _, a := range as {
		sorts = append(sorts, a.Sort)
		strs = append(strs, a.S)
	}
	name := quote(fmt.Sprintf("m:%s#%d", funcKey(fo), idx))
	g.declFun(name, sorts, rs)
	return mk(app(name, strs...), rs, rt)
}

func (g *Gen) pureApp(fo *types.Func, as []T) T {
	sig := fo.Type().(*types.Signature)
	var rs Sort = "Int"
	var rt types.Type
	if sig.Results().Len() >= 1 {
		rt = sig.Results().At(0).Type()
		rs = g.sortOf(rt)
	}
	var sorts []Sort
	var strs []string
	for _, a := range as {
		sorts = append(sorts, a.Sort)
		strs = append(strs, a.S)
	}
	name := quote("m:" + funcKey(fo))
	g.declFun(name, sorts, rs)
	g.assumeNote("pure: %s is modelled as a deterministic, side-effect free function of its arguments", funcKey(fo))
	if k := funcKey(fo); k == "errors.New" || k == "fmt.Errorf" {
		g.assert(sNot(sEq(app(name, strs...), "0")))
	}
	return mk(app(name, strs...), rs, rt)
}

// importedPkgsOf: the other packages that share an import alias with p in the current package.
func (e *SpecEnv) importedPkgsOf(p *types.Package) []*types.Package {
	if e.pkg == nil {
		return nil
	}
	var out []*types.Package
	for alias, paths := range importAliases[e.pkg.Path()] {
		if contains(paths, p.Path()) {
			for _, q := range e.importedPkgs(alias) {
				if q != p {
					out = append(out, q)
				}
			}
		}
	}
	return out
}
