package main

// Memory model: locations (engine-level address descriptors), loads, stores, allocation.

import (
	"sort"
	"fmt"
	"go/types"
	"strings"
)

type pathStep struct {
	st  types.Type // struct type
	idx int        // field index
}

// Loc describes an addressable location.
//
//	field:  arr = F:<T>.<f>,     ref = object reference
//	cell:   arr = Cell:<T>,      ref = cell reference
//	elem:   arr = Elems:<T>,     ref = backing array reference, idx = absolute index
//	global: arr = G:<pkg>.<name> (a plain constant-indexed cell: ref = "0")
//
// path selects a nested field inside the struct value stored at the root location.
type Loc struct {
	kind string
	arr  string
	es   Sort // sort of the value stored at the root location
	ref  string
	idx  string // elem: index relative to off
	off  string // elem: offset of the slice view in the backing array ("0" for arrays)
	path []pathStep
	T    types.Type // type of the content
}

func (l *Loc) String() string {
	s := l.arr + "[" + l.ref + "]"
	if l.kind == "elem" {
		s += "[" + l.idx + "]"
	}
	for _, p := range l.path {
		s += "." + p.st.Underlying().(*types.Struct).Field(p.idx).Name()
	}
	return s
}

func derefType(t types.Type) types.Type {
	if p, ok := t.Underlying().(*types.Pointer); ok {
		return p.Elem()
	}
	return nil
}

func isStruct(t types.Type) bool {
	_, ok := t.Underlying().(*types.Struct)
	return ok
}

// locOfPointer: the location a pointer term points to, for pointee type T that is not a struct
// (a struct is addressed field by field).
func (g *Gen) cellLoc(ref string, pointee types.Type) *Loc {
	arr, es := g.cellArr(pointee)
	return &Loc{kind: "cell", arr: arr, es: es, ref: ref, T: pointee}
}

func (g *Gen) fieldLoc(ref string, structT types.Type, field int) *Loc {
	arr, es := g.fieldArr(structT, field)
	u := structT.Underlying().(*types.Struct)
	return &Loc{kind: "field", arr: arr, es: es, ref: ref, T: u.Field(field).Type()}
}

func (g *Gen) elemLoc(base, off, relIdx string, elem types.Type) *Loc {
	arr, es := g.elemsArr(elem)
	return &Loc{kind: "elem", arr: arr, es: es, ref: base, off: off, idx: relIdx, T: elem}
}

// shiftFn: view of a backing array starting at an offset: shift(a, o)[j] = a[o + j]. Reads of
// slice elements go through it so that quantifier triggers carry the bare index.
func (g *Gen) shiftFn(es Sort) string {
	name := quote("shift:" + es)
	if !g.declared[name] {
		g.declFun(name, []Sort{es, "Int"}, es)
		g.axioms = append(g.axioms, fmt.Sprintf("(forall ((a!s %s) (o!s Int) (j!s Int)) (! (= (select (%s a!s o!s) j!s) (select a!s (+ o!s j!s))) :pattern ((select (%s a!s o!s) j!s))))", es, name, name))
	}
	return name
}

// resliceLemma relates the view at offset off+lo to the view at offset off (a consequence of the
// shift axiom, stated with a trigger on the new view so that facts about the old view apply).
func (g *Gen) resliceLemma(elem types.Type, off, lo string) {
	if lo == "0" || off == "" {
		return
	}
	_, es := g.elemsArr(elem)
	sh := g.shiftFn(es)
	newOff := sAdd(off, lo)
	lhs := sel(app(sh, "a!r", newOff), "j!r")
	var rhs string
	if off == "0" {
		rhs = sel("a!r", sAdd(lo, "j!r"))
	} else {
		rhs = sel(app(sh, "a!r", off), sAdd(lo, "j!r"))
	}
	key := "reslice:" + es + ":" + off + ":" + lo
	if g.axiomDone[key] {
		return
	}
	g.axiomDone[key] = true
	g.axiomLog = append(g.axiomLog, key)
	// offsets mentioning variables bound by an enclosing quantifier of the specification: the
	// lemma is stated for every value of those variables
	extra := ""
	var bvs []string
	for bv := range g.boundSorts {
		bvs = append(bvs, bv)
	}
	sort.Strings(bvs)
	for _, bv := range bvs {
		if containsSym(off, bv) || containsSym(lo, bv) {
			extra += fmt.Sprintf(" (%s %s)", bv, g.boundSorts[bv])
		}
	}
	g.globalMode++
	g.assert(fmt.Sprintf("(forall ((a!r %s) (j!r Int)%s) (! (= %s %s) :pattern (%s)))", es, extra, lhs, rhs, lhs))
	g.globalMode--
}

// noteBound records the sort of a variable bound by a quantifier of a specification.
func (g *Gen) noteBound(name string, sort Sort) {
	if g.boundSorts == nil {
		g.boundSorts = map[string]Sort{}
	}
	g.boundSorts[name] = sort
}

func (g *Gen) viewRead(inner string, es Sort, off, idx string) string {
	if off == "0" {
		return sel(inner, idx)
	}
	return sel(app(g.shiftFn(es), inner, off), idx)
}

func (g *Gen) globalLoc(name string, t types.Type) *Loc {
	return &Loc{kind: "global", arr: "G:" + name, es: g.sortOf(t), ref: "0", T: t}
}

// ghostLoc: a ghost global. Ghost variables of map type are mathematical total maps (SMT arrays
// stored by value), not references.
func (g *Gen) ghostLoc(pkgPath, name string, t types.Type) *Loc {
	es := g.sortOf(t)
	if mt, ok := t.Underlying().(*types.Map); ok {
		es = fmt.Sprintf("(Array %s %s)", g.sortOf(mt.Key()), g.sortOf(mt.Elem()))
	}
	return &Loc{kind: "global", arr: "G:ghost:" + pkgPath + "." + name, es: es, ref: "0", T: t}
}

// subLoc: field i of the struct stored at l.
func (g *Gen) subLoc(l *Loc, structT types.Type, i int) *Loc {
	u := structT.Underlying().(*types.Struct)
	n := *l
	n.path = append(append([]pathStep{}, l.path...), pathStep{structT, i})
	n.T = u.Field(i).Type()
	return &n
}

func (g *Gen) rootRead(st *State, l *Loc) string {
	a := g.arr(st, l.arr, l.es)
	v := sel(a, l.ref)
	if l.kind == "elem" {
		v = g.viewRead(v, l.es, l.off, l.idx)
	}
	return v
}

func (g *Gen) load(st *State, l *Loc) T {
	v := g.rootRead(st, l)
	for _, p := range l.path {
		v = app(g.structAcc(p.st, p.idx), v)
	}
	if len(l.path) == 0 && strings.HasPrefix(l.arr, "G:ghost:") {
		return mk(v, l.es, l.T)
	}
	return mk(v, g.sortOf(l.T), l.T)
}

// updPath returns the struct value `v` with the nested field at path replaced by nv.
func (g *Gen) updPath(v string, path []pathStep, nv string) string {
	if len(path) == 0 {
		return nv
	}
	p := path[0]
	u := p.st.Underlying().(*types.Struct)
	var fs []string
	for i := 0; i < u.NumFields(); i++ {
		fv := app(g.structAcc(p.st, i), v)
		if i == p.idx {
			fv = g.updPath(fv, path[1:], nv)
		}
		fs = append(fs, fv)
	}
	return g.structMk(p.st, fs)
}

func (g *Gen) store(st *State, l *Loc, val string) {
	a := g.arr(st, l.arr, l.es)
	nv := val
	if len(l.path) > 0 {
		nv = g.updPath(g.rootRead(st, l), l.path, val)
	}
	if l.kind == "elem" {
		inner := sel(a, l.ref)
		newInner := sto(inner, sAdd(l.off, l.idx), nv)
		if l.off != "0" {
			// store-through-view lemma: keeps facts stated over the view usable after the store
			oi := g.freshConst("inner", l.es)
			ni := g.freshConst("inner", l.es)
			g.assert(sEq(oi, inner))
			g.assert(sEq(ni, newInner))
			sh := g.shiftFn(l.es)
			lhs := sel(app(sh, ni, l.off), "j!v")
			g.assert(fmt.Sprintf("(forall ((j!v Int)) (! (= %s (ite (= j!v %s) %s %s)) :pattern (%s)))", lhs, l.idx, nv, sel(app(sh, oi, l.off), "j!v"), lhs))
			newInner = ni
		}
		g.setArr(st, l.arr, l.es, sto(a, l.ref, newInner))
		return
	}
	g.setArr(st, l.arr, l.es, sto(a, l.ref, nv))
}

// allocRef returns a fresh reference and advances the allocation counter.
func (g *Gen) allocRef(st *State, hint string) string {
	r := g.freshConst(hint, "Int")
	g.assert(sLe(st.next, r))
	st.next = sAdd(r, "1")
	return r
}

// loadStructFromHeap builds the struct value of *ref (ref points to a struct object).
func (g *Gen) loadStruct(st *State, ref string, structT types.Type) T {
	u := structT.Underlying().(*types.Struct)
	var fs []string
	for i := 0; i < u.NumFields(); i++ {
		fs = append(fs, g.load(st, g.fieldLoc(ref, structT, i)).S)
	}
	return mk(g.structMk(structT, fs), g.sortOf(structT), structT)
}

func (g *Gen) storeStruct(st *State, ref string, structT types.Type, val string) {
	u := structT.Underlying().(*types.Struct)
	for i := 0; i < u.NumFields(); i++ {
		g.store(st, g.fieldLoc(ref, structT, i), app(g.structAcc(structT, i), val))
	}
}

// wfAssume: well-formedness facts about a value just read from the pre-existing heap or taken
// from a parameter: slices have sane bounds; references are already allocated.
func (g *Gen) wfFacts(st *State, v T) string {
	return g.wfValue(v, st.next, 0)
}

// elemAt: element j (relative index) of slice value s.
func (g *Gen) sliceElem(st *State, s T, j string) T {
	elem := s.GT.Underlying().(*types.Slice).Elem()
	l := g.elemLoc(slBase(s.S), slOff(s.S), j, elem)
	return g.load(st, l)
}

func (g *Gen) mapLookup(st *State, m T, k string) (val T, has string) {
	mt := m.GT.Underlying().(*types.Map)
	va, ha, ks, vs := g.mapArrs(mt)
	v := sel(sel(g.arr(st, va, fmt.Sprintf("(Array %s %s)", ks, vs)), m.S), k)
	h := sel(sel(g.arr(st, ha, fmt.Sprintf("(Array %s Bool)", ks)), m.S), k)
	// a nil map has no entries
	h = sAnd(sNot(sEq(m.S, "0")), h)
	return mk(v, vs, mt.Elem()), h
}

// cardArr: the cardinality array of a map type (per type: references of different types may be
// numerically equal in this model).
func cardArr(mt *types.Map) string {
	return "MapC:" + typeKey(mt.Key()) + "->" + typeKey(mt.Elem())
}

func (g *Gen) mapCard(st *State, m T) string {
	mt := m.GT.Underlying().(*types.Map)
	return sel(g.arr(st, cardArr(mt), "Int"), m.S)
}

// containsSym: the SMT symbol sym occurs in term s (as a whole token).
func containsSym(s, sym string) bool {
	for i := 0; ; {
		j := strings.Index(s[i:], sym)
		if j < 0 {
			return false
		}
		k := i + j + len(sym)
		before := i+j == 0 || strings.ContainsRune(" ()", rune(s[i+j-1]))
		after := k >= len(s) || strings.ContainsRune(" ()", rune(s[k]))
		if before && after {
			return true
		}
		i = i + j + 1
	}
}
