package main

// Memory model: locations (engine-level address descriptors), loads, stores, allocation.

import (
	"fmt"
	"go/types"
)

type pathStep struct {
	st  types.Type // struct type
	idx int        // field index
}

// Loc describes an addressable location.
//
//	field:  arr = F:<T>.<f>,     ref = object reference
//	cell:   arr = Cell:<T>,      ref = cell reference
//	elem:   arr = Elems:<T>,     ref = backing array reference, idx = absolute index
//	global: arr = G:<pkg>.<name> (a plain constant-indexed cell: ref = "0")
//
// path selects a nested field inside the struct value stored at the root location.
type Loc struct {
	kind string
	arr  string
	es   Sort // sort of the value stored at the root location
	ref  string
	idx  string
	path []pathStep
	T    types.Type // type of the content
}

func (l *Loc) String() string {
	s := l.arr + "[" + l.ref + "]"
	if l.kind == "elem" {
		s += "[" + l.idx + "]"
	}
	for _, p := range l.path {
		s += "." + p.st.Underlying().(*types.Struct).Field(p.idx).Name()
	}
	return s
}

func derefType(t types.Type) types.Type {
	if p, ok := t.Underlying().(*types.Pointer); ok {
		return p.Elem()
	}
	return nil
}

func isStruct(t types.Type) bool {
	_, ok := t.Underlying().(*types.Struct)
	return ok
}

// locOfPointer: the location a pointer term points to, for pointee type T that is not a struct
// (a struct is addressed field by field).
func (g *Gen) cellLoc(ref string, pointee types.Type) *Loc {
	arr, es := g.cellArr(pointee)
	return &Loc{kind: "cell", arr: arr, es: es, ref: ref, T: pointee}
}

func (g *Gen) fieldLoc(ref string, structT types.Type, field int) *Loc {
	arr, es := g.fieldArr(structT, field)
	u := structT.Underlying().(*types.Struct)
	return &Loc{kind: "field", arr: arr, es: es, ref: ref, T: u.Field(field).Type()}
}

func (g *Gen) elemLoc(base, absIdx string, elem types.Type) *Loc {
	arr, es := g.elemsArr(elem)
	return &Loc{kind: "elem", arr: arr, es: es, ref: base, idx: absIdx, T: elem}
}

func (g *Gen) globalLoc(name string, t types.Type) *Loc {
	return &Loc{kind: "global", arr: "G:" + name, es: g.sortOf(t), ref: "0", T: t}
}

// subLoc: field i of the struct stored at l.
func (g *Gen) subLoc(l *Loc, structT types.Type, i int) *Loc {
	u := structT.Underlying().(*types.Struct)
	n := *l
	n.path = append(append([]pathStep{}, l.path...), pathStep{structT, i})
	n.T = u.Field(i).Type()
	return &n
}

func (g *Gen) rootRead(st *State, l *Loc) string {
	a := g.arr(st, l.arr, l.es)
	v := sel(a, l.ref)
	if l.kind == "elem" {
		v = sel(v, l.idx)
	}
	return v
}

func (g *Gen) load(st *State, l *Loc) T {
	v := g.rootRead(st, l)
	for _, p := range l.path {
		v = app(g.structAcc(p.st, p.idx), v)
	}
	return mk(v, g.sortOf(l.T), l.T)
}

// updPath returns the struct value `v` with the nested field at path replaced by nv.
func (g *Gen) updPath(v string, path []pathStep, nv string) string {
	if len(path) == 0 {
		return nv
	}
	p := path[0]
	u := p.st.Underlying().(*types.Struct)
	var fs []string
	for i := 0; i < u.NumFields(); i++ {
		fv := app(g.structAcc(p.st, i), v)
		if i == p.idx {
			fv = g.updPath(fv, path[1:], nv)
		}
		fs = append(fs, fv)
	}
	return g.structMk(p.st, fs)
}

func (g *Gen) store(st *State, l *Loc, val string) {
	a := g.arr(st, l.arr, l.es)
	nv := val
	if len(l.path) > 0 {
		nv = g.updPath(g.rootRead(st, l), l.path, val)
	}
	if l.kind == "elem" {
		inner := sel(a, l.ref)
		g.setArr(st, l.arr, l.es, sto(a, l.ref, sto(inner, l.idx, nv)))
		return
	}
	g.setArr(st, l.arr, l.es, sto(a, l.ref, nv))
}

// allocRef returns a fresh reference and advances the allocation counter.
func (g *Gen) allocRef(st *State, hint string) string {
	r := g.freshConst(hint, "Int")
	g.assert(sLe(st.next, r))
	st.next = sAdd(r, "1")
	return r
}

// loadStructFromHeap builds the struct value of *ref (ref points to a struct object).
func (g *Gen) loadStruct(st *State, ref string, structT types.Type) T {
	u := structT.Underlying().(*types.Struct)
	var fs []string
	for i := 0; i < u.NumFields(); i++ {
		fs = append(fs, g.load(st, g.fieldLoc(ref, structT, i)).S)
	}
	return mk(g.structMk(structT, fs), g.sortOf(structT), structT)
}

func (g *Gen) storeStruct(st *State, ref string, structT types.Type, val string) {
	u := structT.Underlying().(*types.Struct)
	for i := 0; i < u.NumFields(); i++ {
		g.store(st, g.fieldLoc(ref, structT, i), app(g.structAcc(structT, i), val))
	}
}

// wfAssume: well-formedness facts about a value just read from the pre-existing heap or taken
// from a parameter: slices have sane bounds; references are already allocated.
func (g *Gen) wfFacts(st *State, v T) string {
	return g.wfValue(v, st.next, 0)
}

// elemAt: element j (relative index) of slice value s.
func (g *Gen) sliceElem(st *State, s T, j string) T {
	elem := s.GT.Underlying().(*types.Slice).Elem()
	l := g.elemLoc(slBase(s.S), sAdd(slOff(s.S), j), elem)
	return g.load(st, l)
}

func (g *Gen) mapLookup(st *State, m T, k string) (val T, has string) {
	mt := m.GT.Underlying().(*types.Map)
	va, ha, ks, vs := g.mapArrs(mt)
	v := sel(sel(g.arr(st, va, fmt.Sprintf("(Array %s %s)", ks, vs)), m.S), k)
	h := sel(sel(g.arr(st, ha, fmt.Sprintf("(Array %s Bool)", ks)), m.S), k)
	return mk(v, vs, mt.Elem()), h
}

func (g *Gen) mapCard(st *State, m string) string {
	return sel(g.arr(st, "MapCard", "Int"), m)
}
