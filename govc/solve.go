package main

// Discharging obligations with the installed SMT solvers (staggered portfolio).

import (
	"bytes"
	"context"
	"crypto/sha256"
	"fmt"
	"os"
	"os/exec"
	"path/filepath"
	"strings"
	"sync"
	"time"
)

type solverSpec struct {
	name string
	argv func(file string, timeoutS int) []string
}

var solvers = []solverSpec{
	{"z3-5.1.0", func(f string, t int) []string { return []string{"z3-new", fmt.Sprintf("-T:%d", t), f} }},
	{"cvc5-1.0", func(f string, t int) []string {
		return []string{"cvc5", fmt.Sprintf("--tlimit=%d", t*1000), "--produce-models", f}
	}},
	{"z3-4.8.12", func(f string, t int) []string { return []string{"z3", fmt.Sprintf("-T:%d", t), f} }},
}

type solveOut struct {
	backend string
	result  string
	output  string
	ms      int64
}

func runSolver(ctx context.Context, s solverSpec, file string, timeoutS int) solveOut {
	t0 := time.Now()
	argv := s.argv(file, timeoutS)
	cmd := exec.CommandContext(ctx, argv[0], argv[1:]...)
	var out bytes.Buffer
	cmd.Stdout = &out
	cmd.Stderr = &out
	cmd.Run()
	text := out.String()
	first := ""
	for _, ln := range strings.Split(text, "\n") {
		ln = strings.TrimSpace(ln)
		if ln == "" || strings.HasPrefix(ln, "WARNING") || strings.HasPrefix(ln, ";") {
			continue
		}
		first = ln
		break
	}
	res := "unknown"
	switch first {
	case "unsat", "sat":
		res = first
	case "timeout":
		res = "timeout"
	default:
		if strings.HasPrefix(first, "(error") {
			res = "error"
		}
	}
	if ctx.Err() != nil && res != "sat" && res != "unsat" {
		res = "cancelled"
	}
	return solveOut{backend: s.name, result: res, output: text, ms: time.Since(t0).Milliseconds()}
}

// solveOne races the solvers on one file. The first definitive answer wins.
func solveOne(file string, timeoutS int, both bool) (win solveOut, all []solveOut) {
	ctx, cancel := context.WithCancel(context.Background())
	defer cancel()
	ch := make(chan solveOut, len(solvers))
	started := 0
	start := func(i int) {
		started++
		go func() { ch <- runSolver(ctx, solvers[i], file, timeoutS) }()
	}
	start(0)
	stagger := time.NewTimer(700 * time.Millisecond)
	defer stagger.Stop()
	if both {
		start(1)
		start(2)
	}
	got := 0
	var deadline <-chan time.Time
	for got < started || started < len(solvers) {
		select {
		case <-deadline:
			// thorough: the other solvers had their extra time
			return win, all
		case r := <-ch:
			got++
			all = append(all, r)
			if r.result == "sat" || r.result == "unsat" {
				if win.result == "" {
					win = r
				}
				if !both {
					return win, all
				}
				if deadline == nil {
					deadline = time.After(8 * time.Second)
				}
			}
			if got == started && started < len(solvers) {
				// first solver gave up early: start the others now
				for i := started; i < len(solvers); i++ {
					start(i)
				}
			}
			if got == len(solvers) {
				if win.result == "" {
					win = worst(all)
				}
				return win, all
			}
		case <-stagger.C:
			for i := started; i < len(solvers); i++ {
				start(i)
			}
		}
	}
	if win.result == "" {
		win = worst(all)
	}
	return win, all
}

func worst(all []solveOut) solveOut {
	// no definitive answer: report timeout if any, else unknown
	var w solveOut
	rank := map[string]int{"timeout": 3, "unknown": 2, "cancelled": 1, "error": 0}
	for _, r := range all {
		if w.result == "" || rank[r.result] > rank[w.result] {
			w = r
		}
	}
	var outs []string
	for _, r := range all {
		outs = append(outs, r.backend+": "+strings.TrimSpace(firstLines(r.output, 3)))
	}
	w.output = strings.Join(outs, "\n")
	return w
}

func firstLines(s string, n int) string {
	ls := strings.Split(s, "\n")
	if len(ls) > n {
		ls = ls[:n]
	}
	return strings.Join(ls, "\n")
}

func fileSafe(name string) string {
	s := strings.Map(func(r rune) rune {
		if r >= 'a' && r <= 'z' || r >= 'A' && r <= 'Z' || r >= '0' && r <= '9' || r == '.' || r == '-' || r == '_' {
			return r
		}
		return '_'
	}, name)
	if len(s) > 150 {
		h := sha256.Sum256([]byte(name))
		s = s[:130] + fmt.Sprintf("_%x", h[:6])
	}
	return s
}

// solveAll discharges the obligations of several function results in parallel.
func solveAll(results []*FuncResult, outDir string, timeoutS int, both bool, par int) {
	os.MkdirAll(outDir, 0o755)
	type job struct {
		g *Gen
		o *Obligation
	}
	var jobs []job
	for _, r := range results {
		for _, o := range r.G.obls {
			jobs = append(jobs, job{r.G, o})
		}
	}
	var wg sync.WaitGroup
	sem := make(chan struct{}, par)
	for _, j := range jobs {
		wg.Add(1)
		sem <- struct{}{}
		go func(j job) {
			defer wg.Done()
			defer func() { <-sem }()
			text := j.g.smtFile(j.o) + "(get-model)\n"
			file := filepath.Join(outDir, fileSafe(j.o.Name)+".smt2")
			os.WriteFile(file, []byte(text), 0o644)
			j.o.File = file
			to := timeoutS
			if j.o.TimeoutS > 0 {
				to = j.o.TimeoutS
			}
			win, all := solveOne(file, to, both)
			j.o.Result = win.result
			j.o.Backend = win.backend
			j.o.Ms = win.ms
			if win.result == "sat" {
				j.o.Model = win.output
			} else if win.result != "unsat" {
				j.o.Model = win.output
			}
			if both {
				// disagreement between solvers is an engine error
				seen := map[string]string{}
				for _, r := range all {
					if r.result == "sat" || r.result == "unsat" {
						seen[r.result] = r.backend
					}
				}
				if len(seen) == 2 {
					j.o.Result = "disagree"
					j.o.Model = fmt.Sprintf("sat by %s, unsat by %s", seen["sat"], seen["unsat"])
				}
			}
		}(j)
	}
	wg.Wait()
}
