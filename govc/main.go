package main

import (
	"flag"
	"go/types"
	"fmt"
	"os"
	"path/filepath"
	"sort"
	"strings"
	"time"

	"golang.org/x/tools/go/packages"
	"golang.org/x/tools/go/ssa"
	"golang.org/x/tools/go/ssa/ssautil"
)

// importAliases: package path -> import alias -> imported package path (file-level renames)
var importAliases = map[string]map[string][]string{}

type Loaded struct {
	prog  *ssa.Program
	pkgs  []*ssa.Package
	funcs map[string]*ssa.Function // contract key -> function
	loadS float64
}

func loadRepo(repo string, patterns []string) (*Loaded, error) {
	t0 := time.Now()
	cfg := &packages.Config{Mode: packages.LoadAllSyntax, Dir: repo, BuildFlags: []string{"-tags=verif"}, Tests: false}
	pkgs, err := packages.Load(cfg, patterns...)
	if err != nil {
		return nil, err
	}
	var errs []string
	packages.Visit(pkgs, nil, func(p *packages.Package) {
		if strings.HasPrefix(p.PkgPath, strings.TrimSuffix(modulePath, "/")) {
			for _, e := range p.Errors {
				errs = append(errs, e.Error())
			}
		}
	})
	if len(errs) > 0 {
		return nil, fmt.Errorf("package errors: %s", strings.Join(errs, "; "))
	}
	packages.Visit(pkgs, nil, func(p *packages.Package) {
		if !strings.HasPrefix(p.PkgPath, strings.TrimSuffix(modulePath, "/")) {
			return
		}
		for _, f := range p.Syntax {
			for _, im := range f.Imports {
				if im.Name != nil && im.Name.Name != "_" && im.Name.Name != "." {
					if importAliases[p.PkgPath] == nil {
						importAliases[p.PkgPath] = map[string][]string{}
					}
					path := strings.Trim(im.Path.Value, "\"")
					if !contains(importAliases[p.PkgPath][im.Name.Name], path) {
						importAliases[p.PkgPath][im.Name.Name] = append(importAliases[p.PkgPath][im.Name.Name], path)
					}
				}
			}
		}
	})
	prog, spkgs := ssautil.AllPackages(pkgs, ssa.GlobalDebug|ssa.InstantiateGenerics)
	// build bodies only for the repository's packages (externals are never inlined)
	for _, p := range prog.AllPackages() {
		if strings.HasPrefix(p.Pkg.Path(), strings.TrimSuffix(modulePath, "/")) {
			p.Build()
		}
	}
	l := &Loaded{prog: prog, pkgs: spkgs, funcs: map[string]*ssa.Function{}}
	var add func(fn *ssa.Function)
	add = func(fn *ssa.Function) {
		if fn == nil {
			return
		}
		k := contractKeyOf(fn)
		if _, ok := l.funcs[k]; ok {
			return
		}
		l.funcs[k] = fn
		for _, a := range fn.AnonFuncs {
			add(a)
		}
	}
	for _, p := range prog.AllPackages() {
		if !strings.HasPrefix(p.Pkg.Path(), strings.TrimSuffix(modulePath, "/")) {
			continue
		}
		for _, m := range p.Members {
			switch m := m.(type) {
			case *ssa.Function:
				add(m)
			case *ssa.Type:
				for _, t := range []types.Type{m.Type(), types.NewPointer(m.Type())} {
					ms := prog.MethodSets.MethodSet(t)
					for i := 0; i < ms.Len(); i++ {
						if fn := prog.MethodValue(ms.At(i)); fn != nil && fn.Synthetic == "" {
							add(fn)
						}
					}
				}
			}
		}
	}
	l.loadS = time.Since(t0).Seconds()
	return l, nil
}

// pkgPatternsFor returns the package patterns (relative to the repo) that contain contracts for
// the given property ("" = all).
func pkgPatternsFor(cs *Contracts, prop string) []string {
	set := map[string]bool{}
	for _, fc := range cs.Funcs {
		if fc.Trusted || fc.Inline {
			continue
		}
		if prop != "" && !contains(fc.Props, prop) {
			continue
		}
		if strings.HasPrefix(fc.Pkg, modulePath) {
			set["./"+strings.TrimPrefix(fc.Pkg, modulePath)] = true
		}
	}
	var out []string
	for k := range set {
		out = append(out, k)
	}
	sort.Strings(out)
	return out
}

func contains(xs []string, x string) bool {
	for _, y := range xs {
		if y == x {
			return true
		}
	}
	return false
}

func main() {
	if len(os.Args) < 2 {
		fmt.Fprintln(os.Stderr, "usage: govc check|dump ...")
		os.Exit(2)
	}
	switch os.Args[1] {
	case "check":
		os.Exit(cmdCheck(os.Args[2:]))
	case "dump":
		os.Exit(cmdDump(os.Args[2:]))
	default:
		fmt.Fprintln(os.Stderr, "unknown command")
		os.Exit(2)
	}
}

func cmdDump(args []string) int {
	fs := flag.NewFlagSet("dump", flag.ExitOnError)
	repo := fs.String("repo", "/repo", "repository")
	fnName := fs.String("func", "", "function key substring")
	out := fs.String("out", "/var/tmp/govc-out", "output dir")
	timeout := fs.Int("t", 10, "solver timeout (s)")
	prop := fs.String("prop", "", "view of one property (clause tags, property-scoped lock directives)")
	fs.Parse(args)
	currentProp = *prop
	extra, _ := filepath.Glob("/verif/contracts/*_verif.go")
	cs, err := loadContracts(*repo, extra)
	if err != nil {
		fmt.Fprintln(os.Stderr, err)
		return 2
	}
	l, err := loadRepo(*repo, pkgPatternsFor(cs, ""))
	if err != nil {
		fmt.Fprintln(os.Stderr, err)
		return 2
	}
	resolveClosureAliases(l, cs)
	fmt.Printf("loaded in %.1fs\n", l.loadS)
	var results []*FuncResult
	var keys []string
	for k := range cs.Funcs {
		keys = append(keys, k)
	}
	sort.Strings(keys)
	for _, k := range keys {
		fc := cs.Funcs[k]
		if fc.Trusted || fc.Inline || !strings.Contains(k, *fnName) {
			continue
		}
		fn := l.funcs[k]
		if fn == nil {
			fmt.Printf("RESOLUTION: no function %s\n", k)
			continue
		}
		r := verifyFunction(l.prog, cs, fn, fc)
		results = append(results, r)
	}
	solveAll(results, *out, *timeout, false, 8)
	for _, r := range results {
		fmt.Printf("== %s  (%d obligations) %s\n", r.Display, len(r.G.obls), r.Err)
		for _, o := range r.G.obls {
			status := o.Result
			if o.ExpectSat {
				if o.Result == "sat" {
					status = "covered"
				} else {
					status = "VACUOUS(" + o.Result + ")"
				}
			}
			fmt.Printf("  %-9s %6dms %-10s %s\n", status, o.Ms, o.Backend, o.Name)
			if o.Result != "unsat" && !o.ExpectSat {
				fmt.Printf("      text: %s\n      file: %s\n", o.Text, o.File)
			}
		}
		for _, x := range r.G.resFail {
			fmt.Printf("  RESOLUTION-FAILURE: %s\n", x)
		}
		for _, x := range r.G.degraded {
			fmt.Printf("  DEGRADED: %s\n", x)
		}
		var ns []string
		for n := range r.G.notes {
			ns = append(ns, n)
		}
		sort.Strings(ns)
		for _, n := range ns {
			fmt.Printf("  note: %s\n", n)
		}
	}
	_ = filepath.Join
	return 0
}

// closureAlias: a renumbering-proof key for an anonymous function: the outermost named parent
// plus the sorted names of its captured variables, e.g. `(*TaskQueue).Start$[q,t,taskRes]`.
func closureAlias(fn *ssa.Function) string {
	if fn.Parent() == nil {
		return ""
	}
	root := fn
	for root.Parent() != nil {
		root = root.Parent()
	}
	if root.Pkg == nil {
		return ""
	}
	var names []string
	for _, fv := range fn.FreeVars {
		names = append(names, fv.Name())
	}
	sort.Strings(names)
	return root.Pkg.Pkg.Path() + "::" + root.RelString(root.Pkg.Pkg) + "$[" + strings.Join(names, ",") + "]"
}

// resolveClosureAliases makes contracts written against a closure alias apply to the closure
// that currently matches it (if exactly one does).
func resolveClosureAliases(l *Loaded, cs *Contracts) {
	byAlias := map[string][]*ssa.Function{}
	for _, fn := range l.funcs {
		if a := closureAlias(fn); a != "" {
			byAlias[a] = append(byAlias[a], fn)
		}
	}
	for a, fns := range byAlias {
		fc := cs.Funcs[a]
		if fc == nil {
			continue
		}
		if len(fns) > 1 {
			// several closures capture the same variables: prefer the one with as many loops as
			// the contract names
			want := 0
			for k := range fc.Loops {
				if k > want {
					want = k
				}
			}
			var match []*ssa.Function
			for _, fn := range fns {
				n := 0
				for _, b := range fn.Blocks {
					for _, sc := range b.Succs {
						if sc.Dominates(b) && sc != b || (sc == b) {
							n++
							break
						}
					}
				}
				// count loop headers properly
				hs := map[*ssa.BasicBlock]bool{}
				for _, b := range fn.Blocks {
					for _, sc := range b.Succs {
						if sc.Dominates(b) {
							hs[sc] = true
						}
					}
				}
				if len(hs) == want {
					match = append(match, fn)
				}
			}
			fns = match
		}
		if len(fns) != 1 {
			continue
		}
		l.funcs[a] = fns[0]
		cs.Funcs[contractKeyOf(fns[0])] = fc
	}
}
