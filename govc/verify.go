package main

// Verification of one function against its contract: produces a Gen with obligations.

import (
	"fmt"
	"go/types"

	"golang.org/x/tools/go/ssa"
)

type FuncResult struct {
	Fn      *ssa.Function
	FC      *FuncContract
	G       *Gen
	Display string
	Err     string
}

func verifyFunction(prog *ssa.Program, cs *Contracts, fn *ssa.Function, fc *FuncContract) (res *FuncResult) {
	g := newGen(prog, cs, prog.Fset)
	res = &FuncResult{Fn: fn, FC: fc, G: g, Display: fnDisplay(fn)}
	defer func() {
		if r := recover(); r != nil {
			if se, ok := r.(specError); ok {
				res.Err = se.Error()
				return
			}
			panic(r)
		}
	}()
	if fc.Opts["wf"] == "allocated" {
		g.wfAllocatedOnly = true
	}
	if fc.Opts["theory"] == "strings" {
		g.strTheory = true
	}
	g.topFn = res.Display
	f := g.newFrame(fn, nil)
	st := &State{heap: map[string]string{}, held: map[string]bool{}}
	g.declConst("next@0", "Int")
	g.assert(sLe("1", "next@0"))
	st.next = "next@0"
	f.entry = st.clone()
	// parameters and free variables
	for i, p := range fn.Params {
		name := quote("p:" + p.Name())
		sort := g.sortOf(p.Type())
		g.declConst(name, sort)
		v := mk(name, sort, p.Type())
		f.setVal(p, v)
		f.params[p.Name()] = f.vals[p]
		if w := g.wfFacts(st, v); w != "true" {
			g.assert(w)
		}
		if i == 0 && fn.Signature.Recv() != nil {
			if _, isPtr := p.Type().Underlying().(*types.Pointer); isPtr {
				g.assert(sNot(sEq(name, "0")))
				g.assumeNote("receivers of verified methods are non-nil")
			}
		}
	}
	for _, p := range fn.Params {
		if _, isFn := p.Type().Underlying().(*types.Signature); isFn {
			f.paramFns[p] = contractKeyOf(fn) + "#" + p.Name()
		}
	}
	for _, fv := range fn.FreeVars {
		name := quote("fv:" + fv.Name())
		g.declConst(name, "Int")
		v := mk(name, "Int", fv.Type())
		f.setVal(fv, v)
		f.params["&"+fv.Name()] = f.vals[fv]
		g.assert(sAnd(sLt("0", name), sLt(name, "next@0")))
	}
	env := f.specEnv(st, nil, 0, nil, nil)
	// lets usable in requires (pre-state only)
	f.evalLetsQuiet(env)
	var reqs []string
	for i, c := range fc.Requires {
		v, err := env.evalBool(c.Expr)
		if err != nil {
			g.resolutionFailure(f, fmt.Sprintf("requires %s: %v", clauseLabel(c, i), err))
			continue
		}
		g.assert(v.S)
		reqs = append(reqs, v.S)
	}
	// modifies
	f.hasMod = fc.HasMod
	for _, m := range fc.Modifies {
		ents, err := f.evalModifies(env, m)
		if err != nil {
			g.resolutionFailure(f, fmt.Sprintf("modifies: %v", err))
			continue
		}
		f.mods = append(f.mods, ents...)
	}
	// vacuity: the precondition (with everything assumed so far) is satisfiable
	g.addObl(&Obligation{Name: res.Display + "/cover/pre", Kind: "cover", Fn: res.Display, Goal: "true", ExpectSat: true, Text: "precondition is satisfiable"})
	f.run(st, "true")
	if len(f.rets) == 0 {
		g.note("%s has no reachable return", res.Display)
	}
	for key := range fc.InlineLoops {
		if !f.usedInlineLoops[key] {
			g.degrade("loop %s of the contract of %s was not met while executing the function (callee renamed, not called any more, or not inlined)", key, res.Display)
		}
	}
	return res
}

func (f *Frame) evalLetsQuiet(env *SpecEnv) {
	if f.fc == nil {
		return
	}
	for _, l := range f.fc.Lets {
		if v, err := env.evalAny(l.Expr); err == nil {
			env.vars[l.Name] = v
			f.lets[l.Name] = v
		}
	}
}
