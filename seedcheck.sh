#!/bin/bash
# usage: seedcheck.sh <PROP> <seed-out-dir> <demo-target-dir-relative-to-repo> <test-packages>
# Confirms a seeded change (compiles, existing tests pass, demo fails with / passes without) in a
# scratch worktree, then runs the property's check against it in /repo and restores /repo.
set -u
PROP=$1; OUT=$2; DEMODIR=$3; PKGS=$4
GOTC=/root/go/pkg/mod/golang.org/toolchain@v0.0.1-go1.23.8.linux-amd64/bin
export PATH="$GOTC:$PATH" GOTOOLCHAIN=local GOFLAGS=-mod=mod GOPROXY=off
if [ -n "$(git -C /repo status --porcelain)" ]; then echo "seedcheck: /repo has uncommitted changes (they would be wiped by the final checkout): commit or stash them first"; exit 2; fi
W=/tmp/seedv-$PROP-$$
git -C /repo worktree add -q --detach $W HEAD || exit 2
cd $W
demo=$(ls $OUT/*_test.go | head -1)
echo "== build + existing tests with the change"
git apply $OUT/patch.diff || { echo "patch does not apply"; git -C /repo worktree remove --force $W; exit 2; }
go build ./... && echo BUILD-OK
go test -vet=off -count=1 $PKGS 2>&1 | grep -v "^{" | tail -15
echo "== demo with the change (must fail)"
cp $demo $DEMODIR/
go test -vet=off -count=1 -run 'Seed|seed' ./$DEMODIR 2>&1 | grep -v "^{" | tail -6
echo "== demo without the change (must pass)"
git apply -R $OUT/patch.diff
go test -vet=off -count=1 -run 'Seed|seed' ./$DEMODIR 2>&1 | grep -v "^{" | tail -4
cd /; git -C /repo worktree remove --force $W
echo "== check $PROP against the change"
git -C /repo apply $OUT/patch.diff && (cd /verif && ./check $PROP quick 2>&1 | grep -v "^KNOWN" | cut -c1-330 | tail -12); git -C /repo checkout -- . ; git -C /repo status --short | head -3
# the evidence written by the run against the seeded tree must not stay: restore the committed record
(cd /verif && git checkout -- evidence/$PROP.json 2>/dev/null; true)
(cd /verif && git clean -fdq replays/ 2>/dev/null; true)
