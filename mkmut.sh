#!/bin/bash
# mkmut.sh <PROP-name> <repo-relative file> <old> <new>   -> selftest/mutants/<PROP-name>.patch
set -e
name=$1; file=$2; old=$3; new=$4
cd ${MUTREPO:-/repo}
python3 - "$file" "$old" "$new" <<'EOF'
import sys
f,old,new=sys.argv[1:4]
s=open(f).read()
if s.count(old)!=1:
    print("mkmut: pattern occurs %d times"%s.count(old)); sys.exit(1)
open(f,'w').write(s.replace(old,new))
EOF
git diff -- "$file" > /verif/selftest/mutants/$name.patch
git checkout -- "$file"
test -s /verif/selftest/mutants/$name.patch && echo "wrote $name"
