#!/bin/bash
# one.sh <mutant.patch> : apply the mutant to a scratch copy of $VERIF_REPO (default /repo), run the
# property's quick check there, print one SELFTEST line (how it was detected: obligation / bounded replay)
VERIF=/verif; REPO="${VERIF_REPO:-/repo}"
GOTC=/root/go/pkg/mod/golang.org/toolchain@v0.0.1-go1.23.8.linux-amd64/bin
export PATH="$GOTC:$PATH" GOTOOLCHAIN=local GOFLAGS=-mod=mod GOPROXY=off
p=$1; name=$(basename "$p" .patch); prop=${name%%-*}
scratch=$(mktemp -d /var/tmp/govc-self-XXXXXX)
cp -r "$REPO" "$scratch/repo"
(cd "$scratch/repo" && git apply "$p") || { echo "SELFTEST FAIL $name: patch does not apply"; rm -rf "$scratch"; exit 1; }
out=$("$VERIF/bin/govc" check -repo "$scratch/repo" -verif "$VERIF" -property "$prop" -tier quick -no-evidence -out "$scratch/out" -replaydir "$scratch/replays" 2>&1); rc=$?
nob=$(echo "$out" | grep "^VIOLATION property=$prop " | grep -c "obligation=")
nto=$(echo "$out" | grep "^VIOLATION property=$prop " | grep "obligation=" | grep -c "result=timeout")
nrp=$(echo "$out" | grep "^VIOLATION property=$prop " | grep -c "bounded-replay=")
if [ $rc -eq 1 ] && [ $((nob+nrp)) -gt 0 ]; then
  echo "SELFTEST ok   $name: obligations=$nob (timeouts $nto) bounded-replay=$nrp"
else
  echo "SELFTEST FAIL $name: exit=$rc"; echo "$out" | grep -v "^KNOWN" | tail -4 | sed 's/^/    /'
fi
rm -rf "$scratch"
