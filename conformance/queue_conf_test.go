package queue

// Bounded conformance of the task queue against an ordinary list (injected by /verif with
// `go test -overlay`; not part of the repository).

import (
	"fmt"
	"os"
	"strings"
	"testing"

	"github.com/flant/shell-operator/pkg/task"
)

type vcOp struct {
	name string
	id   string
}

func vcIds(q *TaskQueue) []string {
	var out []string
	for _, t := range q.items {
		if t == nil {
			out = append(out, "<nil>")
		} else {
			out = append(out, t.(*vcTask).name)
		}
	}
	return out
}

type vcTask struct {
	task.BaseTask
	name string
}

func vcNew(id, name string) *vcTask {
	t := &vcTask{name: name}
	t.Id = id
	return t
}

// reference list semantics
func refApply(l []string, ids map[string]string, op vcOp, fresh string) []string {
	idOf := func(n string) string { return ids[n] }
	first := -1
	for i, n := range l {
		if idOf(n) == op.id {
			first = i
			break
		}
	}
	cp := append([]string{}, l...)
	switch op.name {
	case "AddFirst":
		return append([]string{fresh}, cp...)
	case "AddLast":
		return append(cp, fresh)
	case "AddAfter":
		if first < 0 {
			return cp
		}
		return append(cp[:first+1], append([]string{fresh}, l[first+1:]...)...)
	case "AddBefore":
		if first < 0 {
			return cp
		}
		return append(cp[:first], append([]string{fresh}, l[first:]...)...)
	case "Remove":
		if first < 0 {
			return cp
		}
		return append(cp[:first], l[first+1:]...)
	case "RemoveFirst":
		if len(cp) == 0 {
			return cp
		}
		return cp[1:]
	case "RemoveLast":
		if len(cp) == 0 {
			return cp
		}
		return cp[:len(cp)-1]
	case "FilterNot":
		var out []string
		for _, n := range cp {
			if idOf(n) != op.id {
				out = append(out, n)
			}
		}
		return out
	}
	return cp
}

func TestVerifConfQueue(t *testing.T) {
	os.Setenv("QUEUE_ACTIONS_METRICS", "no")
	evaluated := 0
	fails := map[string]bool{}
	report := func(c, fn, detail string) {
		if !fails[c] {
			fails[c] = true
			fmt.Printf("CONF-FAIL case=%s fn=%s detail=%s\n", c, fn, detail)
		}
	}
	idsPool := []string{"a", "b", "a"} // third task duplicates the id of the first
	opNames := []string{"AddFirst", "AddLast", "AddAfter", "AddBefore", "Remove", "RemoveFirst", "RemoveLast", "FilterNot"}
	argIds := []string{"a", "b", "zz"} // zz is absent
	var ops []vcOp
	for _, n := range opNames {
		switch n {
		case "AddAfter", "AddBefore", "Remove", "FilterNot":
			for _, id := range argIds {
				ops = append(ops, vcOp{n, id})
			}
		default:
			ops = append(ops, vcOp{n, ""})
		}
	}
	maxLen := 3
	depth := 2
	if os.Getenv("VERIF_TIER") == "thorough" {
		depth = 3
	}
	var seqs [][]vcOp
	var gen func(prefix []vcOp, d int)
	gen = func(prefix []vcOp, d int) {
		if d == 0 {
			seqs = append(seqs, append([]vcOp{}, prefix...))
			return
		}
		for _, o := range ops {
			gen(append(prefix, o), d-1)
		}
	}
	for d := 1; d <= depth; d++ {
		gen(nil, d)
	}
	for n0 := 0; n0 <= maxLen; n0++ {
		for _, seq := range seqs {
			evaluated++
			q := NewTasksQueue()
			ids := map[string]string{}
			var ref []string
			for i := 0; i < n0; i++ {
				name := fmt.Sprintf("t%d", i)
				ids[name] = idsPool[i%len(idsPool)]
				q.items = append(q.items, vcNew(ids[name], name))
				ref = append(ref, name)
			}
			for k, op := range seq {
				fresh := fmt.Sprintf("n%d", k)
				ids[fresh] = "f" + fmt.Sprint(k)
				nt := vcNew(ids[fresh], fresh)
				before := strings.Join(ref, ",")
				switch op.name {
				case "AddFirst":
					q.AddFirst(nt)
				case "AddLast":
					q.AddLast(nt)
				case "AddAfter":
					q.AddAfter(op.id, nt)
				case "AddBefore":
					q.AddBefore(op.id, nt)
				case "Remove":
					q.Remove(op.id)
				case "RemoveFirst":
					q.RemoveFirst()
				case "RemoveLast":
					q.RemoveLast()
				case "FilterNot":
					id := op.id
					q.Filter(func(t task.Task) bool { return t.GetId() != id })
				}
				ref = refApply(ref, ids, op, fresh)
				got := strings.Join(vcIds(q), ",")
				want := strings.Join(ref, ",")
				fn := "task/queue.(*TaskQueue)." + strings.ToLower(op.name[:1]) + op.name[1:]
				if op.name == "FilterNot" {
					fn = "task/queue.(*TaskQueue).Filter$1"
				}
				absent := ""
				if op.id == "zz" {
					absent = "-absent"
				}
				if got != want {
					report("queue-list-"+op.name+absent, fn, fmt.Sprintf("queue [%s] op %s(%q): got [%s] want [%s]", before, op.name, op.id, got, want))
					ref = nil
					for _, n := range vcIds(q) {
						ref = append(ref, n)
					}
					break
				}
				if q.Length() != len(ref) {
					report("queue-length-"+op.name+absent, fn, fmt.Sprintf("Length()=%d, tasks=%d", q.Length(), len(ref)))
				}
				if q.items == nil && op.name == "RemoveLast" && before != "" {
					report("queue-nil-slice-RemoveLast", fn, "items became a nil slice")
				}
			}
		}
	}
	fmt.Printf("CONF-STATS evaluated=%d scope=queues<=3 tasks over ids {a,b,a(dup)} x all sequences of <=%d operations over {AddFirst,AddLast,AddAfter,AddBefore,Remove,RemoveFirst,RemoveLast,Filter} with ids {a,b,absent}\n", evaluated, depth)
}
