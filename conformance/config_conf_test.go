package config

// Bounded conformance of the configuration loader: generated documents are loaded by the real
// LoadAndValidate as YAML and as JSON and compared with the documented defaults and rules
// (injected by /verif with `go test -overlay`; not part of the repository).

import (
	"encoding/json"
	"fmt"
	"sort"
	"strings"
	"testing"

	"sigs.k8s.io/yaml"

	kemtypes "github.com/flant/shell-operator/pkg/kube_events_manager/types"
)

type vcKube struct {
	name, queue, group string
	allowFailure       bool
	events             []string // nil = absent
	watch              []string // legacy watchEvent, nil = absent
	execOnSync, keep   string   // "", "true", "false"
	include            []string
}

func (k vcKube) doc() map[string]interface{} {
	d := map[string]interface{}{"apiVersion": "v1", "kind": "ConfigMap"}
	if k.name != "" {
		d["name"] = k.name
	}
	if k.queue != "" {
		d["queue"] = k.queue
	}
	if k.group != "" {
		d["group"] = k.group
	}
	if k.allowFailure {
		d["allowFailure"] = true
	}
	if k.events != nil {
		d["executeHookOnEvent"] = k.events
	}
	if k.watch != nil {
		d["watchEvent"] = k.watch
	}
	if k.execOnSync != "" {
		d["executeHookOnSynchronization"] = k.execOnSync == "true"
	}
	if k.keep != "" {
		d["keepFullObjectsInMemory"] = k.keep == "true"
	}
	if k.include != nil {
		d["includeSnapshotsFrom"] = k.include
	}
	return d
}

func vcLoad(data []byte) (c *HookConfig, err error, panicked interface{}) {
	defer func() {
		if r := recover(); r != nil {
			panicked = r
		}
	}()
	c = &HookConfig{}
	err = c.LoadAndValidate(data)
	return c, err, nil
}

func vcSummary(c *HookConfig) string {
	var b strings.Builder
	if c.OnStartup != nil {
		fmt.Fprintf(&b, "onStartup=%v;", c.OnStartup.Order)
	}
	for _, k := range c.OnKubernetesEvents {
		var ev []string
		for _, e := range k.Monitor.EventTypes {
			ev = append(ev, string(e))
		}
		fmt.Fprintf(&b, "k8s[%s q=%s g=%s af=%v ev=%v sync=%v keep=%v/%v incl=%v];", k.BindingName, k.Queue, k.Group, k.AllowFailure, ev, k.ExecuteHookOnSynchronization, k.KeepFullObjectsInMemory, k.Monitor.KeepFullObjectsInMemory, k.IncludeSnapshotsFrom)
	}
	for _, s := range c.Schedules {
		fmt.Fprintf(&b, "sch[%s q=%s g=%s af=%v cron=%s incl=%v];", s.BindingName, s.Queue, s.Group, s.AllowFailure, s.ScheduleEntry.Crontab, s.IncludeSnapshotsFrom)
	}
	return b.String()
}

func TestVerifConfConfig(t *testing.T) {
	evaluated := 0
	report := func(c, fn, detail string) {
		fmt.Printf("CONF-FAIL case=%s fn=%s detail=%s\n", c, fn, detail)
	}
	const fnLoad = "hook/config.(*HookConfig).LoadAndValidate"
	allEvents := []string{string(kemtypes.WatchEventAdded), string(kemtypes.WatchEventModified), string(kemtypes.WatchEventDeleted)}
	kubes := []vcKube{
		{},
		{name: "a"},
		{name: "b", queue: "q1", allowFailure: true},
		{name: "c", events: []string{"Added"}},
		{name: "d", events: []string{}},
		{name: "e", execOnSync: "false", keep: "false"},
		{name: "f", execOnSync: "true", keep: "true", group: "g1"},
		{name: "g", group: "g1", include: []string{"a"}},
		{name: "h", group: "g2"},
		{group: "g2"}, // unnamed and grouped: the group's snapshot list names it `kubernetes`
		{name: "i", watch: []string{"Deleted"}},
		{name: "j", events: []string{}, watch: []string{"Modified"}},
		{name: "k", events: []string{"Added"}, watch: []string{"Deleted", "Modified"}},
		{name: "l", watch: []string{}},
	}
	// every ordered pair and some triples of kubernetes bindings, with a schedule and onStartup
	var sets [][]int
	for i := range kubes {
		sets = append(sets, []int{i})
		for j := range kubes {
			sets = append(sets, []int{i, j})
		}
	}
	sets = append(sets, []int{1, 6, 7, 8}, []int{7, 1, 6}, []int{8, 6, 1, 7, 2})
	for _, set := range sets {
		evaluated++
		var kdocs []interface{}
		names := map[string]int{}
		for _, i := range set {
			kdocs = append(kdocs, kubes[i].doc())
			n := kubes[i].name
			if n == "" {
				n = "kubernetes"
			}
			names[n]++
		}
		doc := map[string]interface{}{
			"configVersion": "v1", "onStartup": 5, "kubernetes": kdocs,
			"schedule": []interface{}{
				map[string]interface{}{"crontab": "* * * * *"},
				map[string]interface{}{"name": "s2", "crontab": "*/5 * * * *", "queue": "sq", "group": "g1", "allowFailure": true},
			},
		}
		js, _ := json.Marshal(doc)
		ys, _ := yaml.JSONToYAML(js)
		cj, errJ, pJ := vcLoad(js)
		cy, errY, pY := vcLoad(ys)
		desc := string(js)
		if pJ != nil || pY != nil {
			report("config-panic", fnLoad, fmt.Sprintf("%s: panic %v %v", desc, pJ, pY))
			continue
		}
		// expected validity: includeSnapshotsFrom names must denote exactly one binding
		valid := true
		for _, i := range set {
			for _, inc := range kubes[i].include {
				if names[inc] != 1 {
					valid = false
				}
			}
		}
		if (errJ == nil) != valid || (errY == nil) != valid {
			report("config-validity", fnLoad, fmt.Sprintf("%s: JSON error=%v YAML error=%v, expected valid=%v", desc, errJ, errY, valid))
			continue
		}
		if !valid {
			continue
		}
		if vcSummary(cj) != vcSummary(cy) {
			report("config-json-yaml-differ", fnLoad, fmt.Sprintf("%s: JSON gives %s, YAML gives %s", desc, vcSummary(cj), vcSummary(cy)))
		}
		// declared bindings in declared order with the documented defaults
		group := map[string][]string{}
		for _, i := range set {
			k := kubes[i]
			n := k.name
			if n == "" {
				n = "kubernetes"
			}
			if k.group != "" {
				dup := false
				for _, x := range group[k.group] {
					if x == n {
						dup = true
					}
				}
				if !dup {
					group[k.group] = append(group[k.group], n)
				}
			}
		}
		var want strings.Builder
		fmt.Fprintf(&want, "onStartup=%v;", 5.0)
		for _, i := range set {
			k := kubes[i]
			n, q := k.name, k.queue
			if n == "" {
				n = "kubernetes"
			}
			if q == "" {
				q = "main"
			}
			ev := allEvents
			if k.events != nil {
				ev = k.events // executeHookOnEvent has priority, also when it is an empty list
			} else if k.watch != nil {
				ev = k.watch
			}
			incl := append([]string{}, k.include...)
			for _, m := range group[k.group] {
				dup := false
				for _, x := range incl {
					if x == m {
						dup = true
					}
				}
				if !dup {
					incl = append(incl, m)
				}
			}
			if k.group == "" {
				incl = k.include
			}
			fmt.Fprintf(&want, "k8s[%s q=%s g=%s af=%v ev=%v sync=%v keep=%v/%v incl=%v];", n, q, k.group, k.allowFailure, ev, k.execOnSync != "false", k.keep != "false", k.keep != "false", incl)
		}
		fmt.Fprintf(&want, "sch[schedule q=main g= af=false cron=* * * * * incl=%v];", []string(nil))
		sIncl := append([]string{}, group["g1"]...)
		if len(group["g1"]) == 0 {
			sIncl = nil
		}
		fmt.Fprintf(&want, "sch[s2 q=sq g=g1 af=true cron=*/5 * * * * incl=%v];", sIncl)
		if got := vcSummary(cj); got != want.String() {
			report("config-effective", "hook/config.(*HookConfigV1).ConvertAndCheck", fmt.Sprintf("%s: effective configuration %s, documented %s", desc, got, want.String()))
		}
	}
	// documents that must be rejected, and garbage that must not crash the loader
	bad := map[string]string{
		"unknown-field":        `{"configVersion":"v1","kubernetes":[{"apiVersion":"v1","kind":"Pod","surprise":1}]}`,
		"unknown-top-field":    `{"configVersion":"v1","onStartup":1,"surprise":true}`,
		"bad-crontab":          `{"configVersion":"v1","schedule":[{"crontab":"every day"}]}`,
		"unknown-snapshot":     `{"configVersion":"v1","kubernetes":[{"apiVersion":"v1","kind":"Pod","name":"a","includeSnapshotsFrom":["nobody"]}]}`,
		"ambiguous-snapshot":   `{"configVersion":"v1","kubernetes":[{"apiVersion":"v1","kind":"Pod","name":"a"},{"apiVersion":"v1","kind":"Pod","name":"a"},{"apiVersion":"v1","kind":"Pod","name":"b","includeSnapshotsFrom":["a"]}]}`,
		"schedule-snapshot":    `{"configVersion":"v1","schedule":[{"crontab":"* * * * *","includeSnapshotsFrom":["nobody"]}]}`,
		"bad-label-selector":   `{"configVersion":"v1","kubernetes":[{"apiVersion":"v1","kind":"Pod","labelSelector":{"matchExpressions":[{"key":"a","operator":"Sometimes","values":["x"]}]}}]}`,
		"bad-api-version":      `{"configVersion":"v1","kubernetes":[{"apiVersion":"a/b/c","kind":"Pod"}]}`,
		"unsupported-version":  `{"configVersion":"v7","onStartup":1}`,
		"wrong-type":           `{"configVersion":"v1","onStartup":"soon"}`,
		"bad-event-type":       `{"configVersion":"v1","kubernetes":[{"apiVersion":"v1","kind":"Pod","executeHookOnEvent":["Exploded"]}]}`,
		"name-and-field-selector": `{"configVersion":"v1","kubernetes":[{"apiVersion":"v1","kind":"Pod","nameSelector":{"matchNames":["a"]},"fieldSelector":{"matchExpressions":[{"field":"metadata.name","operator":"Equals","value":"a"}]}}]}`,
		"admission-namespace-unknown-field": `{"configVersion":"v1","kubernetesValidating":[{"name":"a.example.com","namespace":{"labelSelector":{"matchLabels":{"a":"b"}},"surprise":true},"rules":[{"apiGroups":[""],"apiVersions":["v1"],"operations":["*"],"resources":["pods"],"scope":"Namespaced"}]}]}`,
		"mutating-namespace-unknown-field": `{"configVersion":"v1","kubernetesMutating":[{"name":"a.example.com","namespace":{"labelSelector":{"matchLabels":{"a":"b"}},"nameSelector":{"matchNames":["x"]}},"rules":[{"apiGroups":[""],"apiVersions":["v1"],"operations":["*"],"resources":["pods"],"scope":"Namespaced"}]}]}`,
		"kubernetes-namespace-unknown-field": `{"configVersion":"v1","kubernetes":[{"apiVersion":"v1","kind":"Pod","namespace":{"nameSelector":{"matchNames":["x"]},"surprise":1}}]}`,
		"schedule-unknown-field": `{"configVersion":"v1","schedule":[{"crontab":"* * * * *","surprise":1}]}`,
		"bad-settings":         `{"configVersion":"v1","onStartup":1,"settings":{"executionMinInterval":"soon","executionBurst":"1"}}`,
	}
	var keys []string
	for k := range bad {
		keys = append(keys, k)
	}
	sort.Strings(keys)
	for _, k := range keys {
		evaluated++
		ys, _ := yaml.JSONToYAML([]byte(bad[k]))
		for _, data := range [][]byte{[]byte(bad[k]), ys} {
			_, err, p := vcLoad(data)
			if p != nil {
				report("config-panic", fnLoad, fmt.Sprintf("%s: panic %v", k, p))
			} else if err == nil {
				report("config-invalid-accepted", fnLoad, fmt.Sprintf("%s: %s is accepted", k, data))
			}
		}
	}
	for _, g := range []string{"", " ", "{", "[]", "null", "configVersion: v1\nkubernetes: 5", "configVersion: [v1]", "\x00\x01", "- a\n- b", "configVersion: v1\nschedule:\n- crontab: 5", `{"configVersion":"v1","kubernetes":[null]}`, `{"configVersion":"v1","kubernetes":[{"apiVersion":"v1","kind":"Pod","namespace":{"nameSelector":null}}]}`, `{"configVersion":"v1","kubernetesValidating":[{"name":"x.y.z","rules":null}]}`, `{"configVersion":"v0","schedule":[{}]}`, `{"configVersion":"v0","onKubernetesEvent":[{"kind":"pod","event":["add"]}]}`} {
		evaluated++
		if _, _, p := vcLoad([]byte(g)); p != nil {
			report("config-panic", fnLoad, fmt.Sprintf("input %q: panic %v", g, p))
		}
	}
	fmt.Printf("CONF-STATS evaluated=%d scope=real LoadAndValidate on generated documents as JSON and as YAML: every set of 1-2 (and three larger) kubernetes bindings out of 14 variants (name, queue, allowFailure, executeHookOnEvent absent/[Added]/[] alone and combined with the legacy watchEvent, executeHookOnSynchronization, keepFullObjectsInMemory, groups, includeSnapshotsFrom) plus two schedules and onStartup: validity, JSON = YAML, declared order, documented defaults, group snapshots; 17 documents that must be rejected; 15 malformed inputs that must not panic\n", evaluated)
}
