package shell_operator

// Bounded replay of the execution rate limit: a real hook with `settings` is run through the real
// operator and queue while the harness records the start time of every execution (injected by
// /verif with `go test -overlay`; not part of the repository).

import (
	"context"
	"fmt"
	"os"
	"path/filepath"
	"sort"
	"strconv"
	"strings"
	"testing"
	"time"

	"github.com/deckhouse/deckhouse/pkg/log"
	"golang.org/x/time/rate"

	bindingcontext "github.com/flant/shell-operator/pkg/hook/binding_context"
	. "github.com/flant/shell-operator/pkg/hook/task_metadata"
	htypes "github.com/flant/shell-operator/pkg/hook/types"
	metricstorage "github.com/flant/shell-operator/pkg/metric_storage"
	"github.com/flant/shell-operator/pkg/task"
	"github.com/flant/shell-operator/pkg/task/queue"
)

func vcRateRun(t *testing.T, settings string, nTasks int, twoQueues bool) (starts []time.Duration, lim *rate.Limiter, timeout bool) {
	t.Setenv("QUEUE_ACTIONS_METRICS", "no")
	hooksDir, tempDir, outDir := t.TempDir(), t.TempDir(), t.TempDir()
	script := "#!/usr/bin/env bash\n" +
		"if [[ $1 == \"--config\" ]] ; then\n" +
		"cat <<CONFIG\n" +
		"configVersion: v1\n" + settings +
		"schedule:\n" +
		"- name: b0\n  crontab: \"* * * * *\"\n" +
		"CONFIG\n" +
		"exit 0\nfi\n" +
		fmt.Sprintf("date +%%s%%N > %q/run-$$-$RANDOM\n", outDir) +
		"exit 0\n"
	os.WriteFile(filepath.Join(hooksDir, "hook.sh"), []byte(script), 0o755)

	ctx, cancel := context.WithCancel(context.Background())
	defer cancel()
	op := NewShellOperator(ctx, WithLogger(log.NewNop()))
	op.MetricStorage = metricstorage.NewMetricStorage(ctx, "vc_", true, log.NewNop())
	op.HookMetricStorage = metricstorage.NewMetricStorage(ctx, "vch_", true, log.NewNop())
	op.SetupEventManagers()
	op.setupHookManagers(hooksDir, tempDir)
	if err := op.initHookManager(); err != nil {
		t.Fatalf("init hook manager: %v", err)
	}
	hookName := op.HookManager.GetHookNames()[0]
	lim = op.HookManager.GetHook(hookName).RateLimiter

	const markerType task.TaskType = "VerifMarker"
	queues := []string{"main"}
	if twoQueues {
		queues = append(queues, "second")
	}
	done := make(chan struct{}, len(queues))
	for _, qn := range queues {
		op.TaskQueues.NewNamedQueue(qn, func(tsk task.Task) queue.TaskResult {
			if tsk.GetType() == markerType {
				if tsk.GetId() == "last" {
					return queue.TaskResult{Status: queue.Success, AfterHandle: func() { done <- struct{}{} }}
				}
				return queue.TaskResult{Status: queue.Success}
			}
			return op.taskHandler(tsk)
		})
		q := op.TaskQueues.GetByName(qn)
		q.WaitLoopCheckInterval = 2 * time.Millisecond
		q.DelayOnQueueIsEmpty = 2 * time.Millisecond
		q.DelayOnRepeat = 2 * time.Millisecond
		for i := 0; i < nTasks; i++ {
			bc := bindingcontext.BindingContext{Binding: "b0"}
			bc.Metadata.BindingType = htypes.Schedule
			q.AddLast(task.NewTask(HookRun).WithQueueName(qn).WithMetadata(HookMetadata{
				HookName: hookName, BindingType: htypes.Schedule, Binding: "b0",
				BindingContext: []bindingcontext.BindingContext{bc},
			}).WithQueuedAt(time.Now()))
			// a foreign task between two runs keeps them from being combined into one execution
			m := task.NewTask(markerType).WithQueueName(qn).WithMetadata(HookMetadata{HookName: "not-a-hook"})
			if i == nTasks-1 {
				m.Id = "last"
			}
			q.AddLast(m)
		}
	}
	for _, qn := range queues {
		op.TaskQueues.GetByName(qn).Start()
	}
	for range queues {
		select {
		case <-done:
		case <-time.After(40 * time.Second):
			timeout = true
		}
	}
	op.TaskQueues.Stop()
	files, _ := filepath.Glob(filepath.Join(outDir, "run-*"))
	var ns []int64
	for _, f := range files {
		data, _ := os.ReadFile(f)
		v, _ := strconv.ParseInt(strings.TrimSpace(string(data)), 10, 64)
		ns = append(ns, v)
	}
	sort.Slice(ns, func(i, j int) bool { return ns[i] < ns[j] })
	for _, v := range ns {
		starts = append(starts, time.Duration(v-ns[0]))
	}
	return starts, lim, timeout
}

func TestVerifConfRateLimit(t *testing.T) {
	evaluated := 0
	report := func(c, fn, detail string) {
		fmt.Printf("CONF-FAIL case=%s fn=%s detail=%s\n", c, fn, detail)
	}
	const fn = "shell-operator.(*ShellOperator).taskHandleHookRun"
	for _, sc := range []struct {
		interval  time.Duration
		burst     int
		tasks     int
		twoQueues bool
	}{{150 * time.Millisecond, 1, 6, false}, {120 * time.Millisecond, 3, 8, false}, {150 * time.Millisecond, 2, 4, true}} {
		evaluated++
		settings := fmt.Sprintf("settings:\n  executionMinInterval: %s\n  executionBurst: %d\n", sc.interval, sc.burst)
		starts, lim, timeout := vcRateRun(t, settings, sc.tasks, sc.twoQueues)
		total := sc.tasks
		if sc.twoQueues {
			total *= 2
		}
		if timeout || len(starts) != total {
			report("ratelimit-run-incomplete", fn, fmt.Sprintf("I=%s B=%d: %d of %d executions (timeout=%v)", sc.interval, sc.burst, len(starts), total, timeout))
			continue
		}
		if lim == nil || lim.Burst() != sc.burst || lim.Limit() != rate.Every(sc.interval) {
			report("ratelimit-limiter-settings", "hook.CreateRateLimiter", fmt.Sprintf("I=%s B=%d: limiter %v/%d", sc.interval, sc.burst, lim.Limit(), lim.Burst()))
		}
		// every window [starts[i], starts[j]]: j-i+1 executions must fit B + ceil(T/I); the recorded
		// times are taken inside the hook process (after the token was granted), a slack of 100ms
		// covers process start jitter
		const slack = 100 * time.Millisecond
		for i := range starts {
			for j := i; j < len(starts); j++ {
				T := starts[j] - starts[i] + slack
				allowed := sc.burst + int((T+sc.interval-1)/sc.interval)
				if j-i+1 > allowed {
					report("ratelimit-exceeded", fn, fmt.Sprintf("I=%s B=%d: %d executions within %s (allowed %d); starts %v", sc.interval, sc.burst, j-i+1, starts[j]-starts[i], allowed, starts))
					i = len(starts)
					break
				}
			}
		}
	}
	// no settings: the limiter does not limit
	{
		evaluated++
		starts, lim, timeout := vcRateRun(t, "", 5, false)
		if timeout || len(starts) != 5 {
			report("ratelimit-run-incomplete", fn, fmt.Sprintf("no settings: %d of 5 executions", len(starts)))
		}
		if lim == nil || lim.Limit() != rate.Inf {
			report("ratelimit-unconfigured-hook-throttled", "hook.CreateRateLimiter", fmt.Sprintf("no settings: limiter %v/%d", lim.Limit(), lim.Burst()))
		}
	}
	fmt.Printf("CONF-STATS evaluated=%d scope=real operator + queue + hook script, execution start times recorded by the hook: (I,B,n) = (150ms,1,6) (120ms,3,8) (150ms,2,4+4 on two queues), every window checked against B + ceil(T/I); one hook without settings\n", evaluated)
}
