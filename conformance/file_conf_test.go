package utils

// Bounded conformance of hook discovery on real directory trees (injected by /verif with
// `go test -overlay`; not part of the repository).

import (
	"fmt"
	"os"
	"path/filepath"
	"sort"
	"strings"
	"testing"
)

func TestVerifConfDiscovery(t *testing.T) {
	evaluated := 0
	report := func(c, fn, detail string) {
		fmt.Printf("CONF-FAIL case=%s fn=%s detail=%s\n", c, fn, detail)
	}
	type entry struct {
		rel  string
		mode os.FileMode
		dir  bool
	}
	// every tree is created under each root name
	tree := []entry{
		{"a.sh", 0o755, false}, {"b.yaml", 0o755, false}, {"c.json", 0o755, false}, {"d.md", 0o755, false}, {"e.txt", 0o755, false},
		{"noexec.sh", 0o644, false}, {".hidden.sh", 0o755, false}, {"groupexec", 0o610, false},
		{"sub", 0, true}, {"sub/b.sh", 0o700, false}, {"sub/lib", 0, true}, {"sub/lib/x.sh", 0o755, false},
		{"lib", 0, true}, {"lib/y.sh", 0o755, false}, {".git", 0, true}, {".git/z.sh", 0o755, false},
		{"sub/.cache", 0, true}, {"sub/.cache/w.sh", 0o755, false}, {"libs", 0, true}, {"libs/ok.sh", 0o755, false},
		{"sub/a.sh", 0o755, false},
	}
	want := []string{"a.sh", "groupexec", "libs/ok.sh", "sub/a.sh", "sub/b.sh"}
	for _, rootName := range []string{"hooks", ".hooks", "lib", "my.hooks", ".lib"} {
		evaluated++
		base := t.TempDir()
		root := filepath.Join(base, rootName)
		for _, e := range tree {
			p := filepath.Join(root, e.rel)
			if e.dir {
				os.MkdirAll(p, 0o755)
				continue
			}
			os.MkdirAll(filepath.Dir(p), 0o755)
			os.WriteFile(p, []byte("#!/bin/sh\n"), e.mode)
			os.Chmod(p, e.mode)
		}
		got, err := RecursiveGetExecutablePaths(root)
		if err != nil {
			report("discovery-error-"+rootName, "utils/file.RecursiveGetExecutablePaths$1", err.Error())
			continue
		}
		var rel []string
		for _, p := range got {
			r, _ := filepath.Rel(root, p)
			rel = append(rel, r)
		}
		sort.Strings(rel)
		if strings.Join(rel, ",") != strings.Join(want, ",") {
			c := "discovery-set"
			if strings.HasPrefix(rootName, ".") || rootName == "lib" {
				c = "discovery-root-skipped"
			}
			report(c, "utils/file.RecursiveGetExecutablePaths$1", fmt.Sprintf("hooks dir named %q: got %v want %v", rootName, rel, want))
		}
	}
	fmt.Printf("CONF-STATS evaluated=%d scope=one directory tree (21 entries: extensions, mode bits, hidden/lib dirs at two depths) under 5 root directory names\n", evaluated)
}
