package hook

// Bounded conformance of the onStartup order (injected by /verif with `go test -overlay`).

import (
	"fmt"
	"strings"
	"testing"

	"github.com/flant/shell-operator/pkg/hook/config"
	htypes "github.com/flant/shell-operator/pkg/hook/types"
)

func TestVerifConfStartupOrder(t *testing.T) {
	evaluated := 0
	report := func(c, fn, detail string) {
		fmt.Printf("CONF-FAIL case=%s fn=%s detail=%s\n", c, fn, detail)
	}
	for _, n := range []int{1, 2, 5, 12, 13, 20, 40, 100} {
		for _, mod := range []int{1, 2, 3} {
			evaluated++
			hm := newHookManager(t, t.TempDir())
			var hooks []*Hook
			for i := 0; i < n; i++ {
				h := &Hook{Name: fmt.Sprintf("hook-%03d", i), Config: &config.HookConfig{}}
				h.Config.OnStartup = &htypes.OnStartupConfig{Order: float64((i * 7) % mod)}
				hooks = append(hooks, h)
			}
			hm.hooksInOrder[htypes.OnStartup] = hooks
			names, err := hm.GetHooksInOrder(htypes.OnStartup)
			if err != nil {
				report("startup-order-error", "hook.(*Manager).GetHooksInOrder", err.Error())
				continue
			}
			order := func(name string) float64 {
				var i int
				fmt.Sscanf(name, "hook-%d", &i)
				return float64((i * 7) % mod)
			}
			for k := 1; k < len(names); k++ {
				a, b := names[k-1], names[k]
				if order(a) > order(b) || (order(a) == order(b) && strings.Compare(a, b) >= 0) {
					report("startup-order-equal-order-not-alphabetical", "hook.(*Manager).GetHooksInOrder", fmt.Sprintf("%d hooks, orders i*7 mod %d: %s (order %v) runs before %s (order %v)", n, mod, a, order(a), b, order(b)))
					break
				}
			}
		}
	}
	fmt.Printf("CONF-STATS evaluated=%d scope=1..100 onStartup hooks named hook-NNN with orders (i*7 mod m), m in 1..3\n", evaluated)
}
