package kubeeventsmanager

// Bounded conformance of the watch-event handler against a reference model of "meaningful
// change": the real resourceInformer (no cluster needed: notifications are fed directly), real
// jq filter, real checksums (injected by /verif with `go test -overlay`; not part of the
// repository).

import (
	"fmt"
	"os"
	"sort"
	"strings"
	"testing"

	"github.com/deckhouse/deckhouse/pkg/log"
	"k8s.io/apimachinery/pkg/apis/meta/v1/unstructured"
	"k8s.io/client-go/tools/cache"

	kemtypes "github.com/flant/shell-operator/pkg/kube_events_manager/types"
	"github.com/flant/shell-operator/pkg/metric"
)

func vcObj(name, label, data string) *unstructured.Unstructured {
	return &unstructured.Unstructured{Object: map[string]interface{}{
		"apiVersion": "v1", "kind": "ConfigMap",
		"metadata": map[string]interface{}{"name": name, "namespace": "default", "labels": map[string]interface{}{"l": label}},
		"data":     map[string]interface{}{"k": data},
	}}
}

type vcStep struct {
	kind  kemtypes.WatchEventType
	name  string
	label string
	data  string
	stale bool // delivered as DeletedFinalStateUnknown
}

func TestVerifConfWatchEvents(t *testing.T) {
	evaluated := 0
	report := func(c, detail string) {
		fmt.Printf("CONF-FAIL case=%s fn=kube_events_manager.(*resourceInformer).handleWatchEvent detail=%s\n", c, detail)
	}
	mstor := metric.NewStorageMock(t)
	mstor.HistogramObserveMock.Set(func(string, float64, map[string]string, []float64) {})
	mstor.GaugeSetMock.Set(func(string, float64, map[string]string) {})

	typeSets := [][]kemtypes.WatchEventType{
		nil, // default: all three
		{kemtypes.WatchEventAdded},
		{kemtypes.WatchEventModified, kemtypes.WatchEventDeleted},
		{},
	}
	// the third filter emits two objects: the projection is made of both outputs
	filters := []string{"", ".metadata.labels", ".metadata.labels, .data"}
	// all step sequences of length <= maxLen over a small alphabet
	alphabet := []vcStep{
		{kemtypes.WatchEventAdded, "a", "x", "1", false},
		{kemtypes.WatchEventAdded, "a", "x", "2", false},
		{kemtypes.WatchEventModified, "a", "x", "2", false},
		{kemtypes.WatchEventModified, "a", "y", "2", false},
		{kemtypes.WatchEventModified, "b", "x", "1", false},
		{kemtypes.WatchEventDeleted, "a", "y", "2", false},
		{kemtypes.WatchEventDeleted, "a", "x", "1", true},
	}
	maxLen := 3
	if os.Getenv("VERIF_TIER") == "thorough" {
		maxLen = 4
	}
	var seqs [][]int
	var gen func(cur []int)
	gen = func(cur []int) {
		if len(cur) > 0 {
			seqs = append(seqs, append([]int{}, cur...))
		}
		if len(cur) == maxLen {
			return
		}
		for i := range alphabet {
			gen(append(cur, i))
		}
	}
	gen(nil)
	for _, types := range typeSets {
		for _, jqf := range filters {
			for _, keepFull := range []bool{true, false} {
				for _, enabled := range []bool{true, false} {
					for _, seq := range seqs {
						evaluated++
						mc := &MonitorConfig{JqFilter: jqf, KeepFullObjectsInMemory: keepFull}
						mc.Metadata.MonitorId = "mon"
						mc.WithEventTypes(types)
						var got []string
						ei := newResourceInformer("default", "", &resourceInformerConfig{mstor: mstor, monitor: mc, logger: log.NewNop(),
							eventCb: func(ev kemtypes.KubeEvent) {
								for i, o := range ev.Objects {
									got = append(got, fmt.Sprintf("%s:%s", ev.WatchEvents[i], o.Metadata.ResourceId))
								}
							}})
						ei.eventCbEnabled = enabled
						// reference model
						listed := func(k kemtypes.WatchEventType) bool {
							if types == nil {
								return true
							}
							for _, x := range types {
								if x == k {
									return true
								}
							}
							return false
						}
						proj := map[string]string{}
						lastData := map[string]string{}
						var want []string
						var desc []string
						for _, si := range seq {
							st := alphabet[si]
							o := vcObj(st.name, st.label, st.data)
							rid := "default/ConfigMap/" + st.name
							p := st.label + "|" + st.data
							if jqf == ".metadata.labels" {
								p = st.label
							}
							desc = append(desc, fmt.Sprintf("%s(%s l=%s d=%s)", st.kind, st.name, st.label, st.data))
							switch st.kind {
							case kemtypes.WatchEventDeleted:
								delete(proj, rid)
								if listed(st.kind) {
									want = append(want, fmt.Sprintf("%s:%s", st.kind, rid))
								}
							default:
								old, in := proj[rid]
								proj[rid] = p
								lastData[rid] = st.data
								if listed(st.kind) && !(in && old == p) {
									want = append(want, fmt.Sprintf("%s:%s", st.kind, rid))
								}
							}
							if st.stale {
								ei.handleWatchEvent(cache.DeletedFinalStateUnknown{Key: rid, Obj: o}, st.kind)
							} else {
								ei.handleWatchEvent(o, st.kind)
							}
						}
						if !enabled {
							// Synchronization in progress: events are buffered, then replayed in order
							if len(got) != 0 {
								report("watch-event-delivered-while-disabled", fmt.Sprintf("callback disabled, delivered %v", got))
							}
							ei.enableKubeEventCb()
						}
						cfg := fmt.Sprintf("types=%v jq=%q keepFull=%v enabled=%v steps=[%s]", types, jqf, keepFull, enabled, strings.Join(desc, " "))
						if strings.Join(got, ",") != strings.Join(want, ",") {
							report("watch-event-meaningful-change", fmt.Sprintf("%s: fired %v, want %v", cfg, got, want))
						}
						var cached, wantCached []string
						for k := range ei.cachedObjects {
							cached = append(cached, k)
						}
						for k := range proj {
							wantCached = append(wantCached, k)
						}
						sort.Strings(cached)
						sort.Strings(wantCached)
						if strings.Join(cached, ",") != strings.Join(wantCached, ",") {
							report("watch-event-cache", fmt.Sprintf("%s: cached %v, want %v", cfg, cached, wantCached))
						}
						for k, v := range ei.cachedObjects {
							if (v.Object == nil) == keepFull {
								report("watch-event-keep-full-object", fmt.Sprintf("%s: cached %s has object=%v", cfg, k, v.Object != nil))
							}
							if v.Object != nil {
								d, _, _ := unstructured.NestedString(v.Object.Object, "data", "k")
								if d != lastData[k] {
									report("watch-event-cache-stale", fmt.Sprintf("%s: the cached object %s has data %q, the last notification carried %q (suppressed changes still update what snapshots show)", cfg, k, d, lastData[k]))
								}
							}
						}
					}
				}
			}
		}
	}
	fmt.Printf("CONF-STATS evaluated=%d scope=real resourceInformer fed directly: every sequence of <= %d notifications over 7 (add/modify/delete of 2 objects, label and data variants, one stale delete) x 4 executeHookOnEvent sets x jqFilter none / labels / two outputs (labels, data) x keepFullObjectsInMemory x callback enabled/buffered; fired events and cache compared with a reference model of 'projection changed'\n", evaluated, maxLen)
}
