package shell_operator

// Bounded replay of "Synchronization before Events" per binding: real operator pieces (hook manager,
// kube events manager on a fake cluster, task handlers). After the Synchronization of one binding
// only that binding may emit Events (injected by /verif with `go test -overlay`).

import (
	"context"
	"fmt"
	"os"
	"path/filepath"
	"sort"
	"sync"
	"testing"
	"time"

	"github.com/deckhouse/deckhouse/pkg/log"
	corev1 "k8s.io/api/core/v1"
	metav1 "k8s.io/apimachinery/pkg/apis/meta/v1"

	"github.com/flant/kube-client/fake"
	"github.com/flant/shell-operator/pkg/hook/task_metadata"
	kemtypes "github.com/flant/shell-operator/pkg/kube_events_manager/types"
	metricstorage "github.com/flant/shell-operator/pkg/metric_storage"
	"github.com/flant/shell-operator/pkg/task"
	"github.com/flant/shell-operator/pkg/task/queue"
)

const vcUnlockHook = `#!/bin/bash
if [[ "$1" == "--config" ]]; then
  echo 'configVersion: v1'
  echo 'kubernetes:'
  echo '- name: cm'
  echo '  apiVersion: v1'
  echo '  kind: ConfigMap'
  echo '- name: secrets'
  echo '  apiVersion: v1'
  echo '  kind: Secret'
  echo '  queue: q-secrets'
  echo '- name: cm-own-queue'
  echo '  apiVersion: v1'
  echo '  kind: ConfigMap'
  echo '  queue: q-cm'
  exit 0
fi
exit 0
`

func TestVerifConfSyncUnlock(t *testing.T) {
	evaluated := 0
	report := func(c, detail string) {
		fmt.Printf("CONF-FAIL case=%s fn=shell-operator.(*ShellOperator).taskHandleHookRun detail=%s\n", c, detail)
	}
	bindings := []string{"cm", "secrets", "cm-own-queue"}
	kindOf := map[string]string{"cm": "ConfigMap", "secrets": "Secret", "cm-own-queue": "ConfigMap"}
	// every order in which the three Synchronization tasks can be delivered
	orders := [][]int{{0, 1, 2}, {0, 2, 1}, {1, 0, 2}, {1, 2, 0}, {2, 0, 1}, {2, 1, 0}}
	for oi, order := range orders {
		hooksDir, tmpDir := t.TempDir(), t.TempDir()
		if err := os.WriteFile(filepath.Join(hooksDir, "hook.sh"), []byte(vcUnlockHook), 0o755); err != nil {
			t.Fatal(err)
		}
		ctx, cancel := context.WithCancel(context.Background())
		fc := fake.NewFakeCluster(fake.ClusterVersionV121)
		if _, err := fc.Client.CoreV1().Namespaces().Create(context.TODO(), &corev1.Namespace{ObjectMeta: metav1.ObjectMeta{Name: "default"}}, metav1.CreateOptions{}); err != nil {
			t.Fatal(err)
		}
		op := NewShellOperator(ctx, WithLogger(log.NewNop()))
		op.MetricStorage = metricstorage.NewMetricStorage(ctx, fmt.Sprintf("vcu%d_", oi), true, log.NewNop())
		op.HookMetricStorage = metricstorage.NewMetricStorage(ctx, fmt.Sprintf("vcuh%d_", oi), true, log.NewNop())
		op.KubeClient = fc.Client
		op.SetupEventManagers()
		op.setupHookManagers(hooksDir, tmpDir)
		if err := op.initHookManager(); err != nil {
			t.Fatal(err)
		}
		op.bootstrapMainQueue(op.TaskQueues)
		enable := op.TaskQueues.GetMain().GetFirst()
		if enable == nil || enable.GetType() != task_metadata.EnableKubernetesBindings {
			t.Fatalf("first task: %v", enable)
		}
		res := op.taskHandler(enable)
		if res.Status != queue.Success || len(res.HeadTasks) != len(bindings) {
			t.Fatalf("enable kubernetes bindings: status %q, %d tasks", res.Status, len(res.HeadTasks))
		}
		syncTask := map[string]task.Task{}
		bindingOf := map[string]string{}
		for _, tsk := range res.HeadTasks {
			hm := task_metadata.HookMetadataAccessor(tsk)
			syncTask[hm.Binding] = tsk
			bindingOf[hm.MonitorIDs[0]] = hm.Binding
		}
		// events seen per binding since the last reset; the channel is drained all the time (the
		// monitors block on it while they replay buffered events)
		var mu sync.Mutex
		seen := map[string]int{}
		go func() {
			for {
				select {
				case ev := <-op.KubeEventsManager.Ch():
					if ev.Type == kemtypes.TypeEvent {
						mu.Lock()
						seen[bindingOf[ev.MonitorId]]++
						mu.Unlock()
					}
				case <-ctx.Done():
					return
				}
			}
		}()
		synced := map[string]bool{}
		n := 0
		change := func() {
			n++
			fc.CreateSimpleNamespaced("default", "ConfigMap", fmt.Sprintf("cm-%d-%d", oi, n))
			fc.CreateSimpleNamespaced("default", "Secret", fmt.Sprintf("s-%d-%d", oi, n))
		}
		for step := 0; step <= len(order); step++ {
			evaluated++
			time.Sleep(300 * time.Millisecond) // let the replay of buffered events finish
			mu.Lock()
			for k := range seen {
				delete(seen, k)
			}
			mu.Unlock()
			change()
			time.Sleep(500 * time.Millisecond)
			mu.Lock()
			snapshot := map[string]int{}
			for k, v := range seen {
				snapshot[k] = v
			}
			mu.Unlock()
			seen := snapshot
			for _, b := range bindings {
				if !synced[b] && seen[b] > 0 {
					report("sync-unlock-event-before-synchronization", fmt.Sprintf("Synchronization tasks delivered so far %v (order %v): binding %q (%s) emitted %d Event(s) although its own Synchronization has not run", vcKeys(synced), order, b, kindOf[b], seen[b]))
				}
				if synced[b] && seen[b] == 0 {
					report("sync-unlock-no-event-after-synchronization", fmt.Sprintf("Synchronization of %q has run (order %v) but a new %s did not produce an Event", b, order, kindOf[b]))
				}
			}
			if step < len(order) {
				b := bindings[order[step]]
				if r := op.taskHandler(syncTask[b]); r.Status != queue.Success {
					t.Fatalf("Synchronization of %s: %q", b, r.Status)
				}
				synced[b] = true
			}
		}
		cancel()
	}
	fmt.Printf("CONF-STATS evaluated=%d scope=one hook with three kubernetes bindings (main queue, two own queues; ConfigMap, Secret, ConfigMap) on a fake cluster, the three Synchronization tasks delivered in each of the 6 orders; before and after each delivery a ConfigMap and a Secret are created: a binding emits Events iff its own Synchronization has run\n", evaluated)
}

func vcKeys(m map[string]bool) []string {
	var out []string
	for k, v := range m {
		if v {
			out = append(out, k)
		}
	}
	sort.Strings(out)
	return out
}
