package queue

// Statistical replay for C17 (injected by /verif with `go test -overlay`): a task that arrives
// right after the stop request must not be started.

import (
	"context"
	"fmt"
	"os"
	"sync/atomic"
	"testing"
	"time"

	"github.com/flant/shell-operator/pkg/task"
)

func TestVerifConfQueueStop(t *testing.T) {
	os.Setenv("QUEUE_ACTIONS_METRICS", "no")
	trials := 300
	startedAfterStop := 0
	for i := 0; i < trials; i++ {
		ctx, cancel := context.WithCancel(context.Background())
		q := NewTasksQueue()
		q.WithContext(ctx)
		q.WaitLoopCheckInterval = 200 * time.Microsecond
		q.DelayOnQueueIsEmpty = 200 * time.Microsecond
		var stopped, started int32
		q.WithHandler(func(tk task.Task) TaskResult {
			if atomic.LoadInt32(&stopped) == 1 {
				atomic.StoreInt32(&started, 1)
			}
			return TaskResult{Status: Success}
		})
		q.Start()
		time.Sleep(time.Millisecond)
		atomic.StoreInt32(&stopped, 1)
		cancel()
		q.AddLast(&task.BaseTask{Id: "late"})
		time.Sleep(3 * time.Millisecond)
		if atomic.LoadInt32(&started) == 1 {
			startedAfterStop++
		}
	}
	if startedAfterStop > 0 {
		fmt.Printf("CONF-FAIL case=queue-task-started-after-stop fn=task/queue.(*TaskQueue).waitForTask detail=a task added right after the stop request was started in %d of %d trials\n", startedAfterStop, trials)
	}
	fmt.Printf("CONF-STATS evaluated=%d scope=%d timing trials: worker waiting on an empty queue, cancel, AddLast, 3ms observation\n", trials, trials)
}
