package queue

// Statistical replay for C17 (injected by /verif with `go test -overlay`): a task that arrives
// right after the stop request must not be started.

import (
	"context"
	"fmt"
	"os"
	"sync/atomic"
	"testing"
	"time"

	"github.com/flant/shell-operator/pkg/task"
)

func TestVerifConfQueueStop(t *testing.T) {
	os.Setenv("QUEUE_ACTIONS_METRICS", "no")
	trials := 300
	startedAfterStop := 0
	for i := 0; i < trials; i++ {
		ctx, cancel := context.WithCancel(context.Background())
		q := NewTasksQueue()
		q.WithContext(ctx)
		q.WaitLoopCheckInterval = 200 * time.Microsecond
		q.DelayOnQueueIsEmpty = 200 * time.Microsecond
		var stopped, started int32
		q.WithHandler(func(tk task.Task) TaskResult {
			if atomic.LoadInt32(&stopped) == 1 {
				atomic.StoreInt32(&started, 1)
			}
			return TaskResult{Status: Success}
		})
		q.Start()
		time.Sleep(time.Millisecond)
		atomic.StoreInt32(&stopped, 1)
		cancel()
		q.AddLast(&task.BaseTask{Id: "late"})
		time.Sleep(3 * time.Millisecond)
		if atomic.LoadInt32(&started) == 1 {
			startedAfterStop++
		}
	}
	if startedAfterStop > 0 {
		fmt.Printf("CONF-FAIL case=queue-task-started-after-stop fn=task/queue.(*TaskQueue).waitForTask detail=a task added right after the stop request was started in %d of %d trials\n", startedAfterStop, trials)
	}
	// the stop request arrives while a handler is running; whatever the handler answers (Success,
	// Keep, Fail, Repeat, with or without a delay request), no handler is started afterwards and the
	// worker ends with the status "stop"
	det := 0
	for _, st := range []TaskStatus{Success, Keep, Fail, Repeat} {
		for _, delay := range []time.Duration{0, 5 * time.Millisecond} {
			det++
			ctx, cancel := context.WithCancel(context.Background())
			q := NewTasksQueue()
			q.WithContext(ctx)
			q.WaitLoopCheckInterval = 200 * time.Microsecond
			q.DelayOnQueueIsEmpty = 200 * time.Microsecond
			q.DelayOnRepeat = time.Millisecond
			q.ExponentialBackoffFn = func(int) time.Duration { return time.Millisecond }
			var calls, after int32
			var stoppedAt int32
			q.WithHandler(func(tk task.Task) TaskResult {
				if atomic.AddInt32(&calls, 1) == 1 {
					cancel() // shutdown is requested during the first run of the handler
					atomic.StoreInt32(&stoppedAt, 1)
				} else if atomic.LoadInt32(&stoppedAt) == 1 {
					atomic.AddInt32(&after, 1)
				}
				return TaskResult{Status: st, DelayBeforeNextTask: delay}
			})
			q.AddLast(&task.BaseTask{Id: "first"})
			q.AddLast(&task.BaseTask{Id: "second"})
			q.Start()
			deadline := time.Now().Add(300 * time.Millisecond)
			for time.Now().Before(deadline) && q.GetStatus() != "stop" {
				time.Sleep(time.Millisecond)
			}
			time.Sleep(5 * time.Millisecond)
			if n := atomic.LoadInt32(&after); n > 0 || q.GetStatus() != "stop" {
				fmt.Printf("CONF-FAIL case=queue-handler-started-after-stop-during-handler fn=task/queue.(*TaskQueue).Start$1 detail=stop requested while the handler runs, handler answers %s (delay %s): %d handler start(s) after the stop request, worker status %q (want 0 and \"stop\")\n", st, delay, n, q.GetStatus())
			}
			cancel()
		}
	}
	fmt.Printf("CONF-STATS evaluated=%d scope=%d timing trials: worker waiting on an empty queue, cancel, AddLast, 3ms observation; 8 deterministic runs: stop requested while the handler runs x handler result {Success,Keep,Fail,Repeat} x delay request or not\n", trials+det, trials)
}
