package conversion

// Bounded conformance of the conversion chain search (injected by /verif with
// `go test -overlay`; not part of the repository).

import (
	"fmt"
	"os"
	"strings"
	"testing"
)

func vcTrim(v string) string {
	if i := strings.IndexRune(v, '/'); i >= 0 {
		return v[i+1:]
	}
	return v
}

func vcValid(path []Rule, declared []Rule, from, to string) string {
	if len(path) == 0 {
		return ""
	}
	isDecl := func(r Rule) bool {
		for _, d := range declared {
			if d == r {
				return true
			}
		}
		return false
	}
	if vcTrim(path[0].FromVersion) != vcTrim(from) {
		return fmt.Sprintf("starts at %s, not at %s", path[0].FromVersion, from)
	}
	if vcTrim(path[len(path)-1].ToVersion) != vcTrim(to) {
		return fmt.Sprintf("ends at %s, not at %s", path[len(path)-1].ToVersion, to)
	}
	for i, r := range path {
		if !isDecl(r) {
			return fmt.Sprintf("step %d (%s) is not a declared rule", i, r)
		}
		if i > 0 && vcTrim(path[i-1].ToVersion) != vcTrim(r.FromVersion) {
			return fmt.Sprintf("step %d starts at %s but step %d ended at %s", i, r.FromVersion, i-1, path[i-1].ToVersion)
		}
	}
	return ""
}

func vcReachable(declared []Rule, from, to string) bool {
	seen := map[string]bool{vcTrim(from): true}
	queue := []string{vcTrim(from)}
	for len(queue) > 0 {
		v := queue[0]
		queue = queue[1:]
		for _, r := range declared {
			if vcTrim(r.FromVersion) == v {
				n := vcTrim(r.ToVersion)
				if n == vcTrim(to) {
					return true
				}
				if !seen[n] {
					seen[n] = true
					queue = append(queue, n)
				}
			}
		}
	}
	return false
}

func TestVerifConfChain(t *testing.T) {
	evaluated := 0
	fails := map[string]bool{}
	report := func(c, fn, detail string) {
		if !fails[c] {
			fails[c] = true
			fmt.Printf("CONF-FAIL case=%s fn=%s detail=%s\n", c, fn, detail)
		}
	}
	check := func(declared []Rule, from, to string, tag string) {
		evaluated++
		cs := NewChainStorage()
		ch := cs.Get("crd")
		for _, r := range declared {
			ch.Put(r)
		}
		path := cs.FindConversionChain("crd", Rule{FromVersion: from, ToVersion: to})
		if len(path) == 0 && vcReachable(declared, from, to) {
			report("chain-not-found"+tag, "webhook/conversion.(ChainStorage).FindConversionChain", fmt.Sprintf("rules %v, request %s->%s: a chain exists but none was found", declared, from, to))
		}
		if len(path) > 0 {
			if why := vcValid(path, declared, from, to); why != "" {
				c := "chain-invalid-path"
				if strings.Contains(why, "but step") {
					c = "chain-steps-not-adjacent"
				}
				fn := "webhook/conversion.(Chain).NextRules"
				if c != "chain-steps-not-adjacent" {
					fn = "webhook/conversion.(ChainStorage).FindConversionChain"
				}
				report(c+tag, fn, fmt.Sprintf("rules %v, request %s->%s: got %v: %s", declared, from, to, path, why))
			}
		}
	}
	// versions with a substring trap (v1 / v1beta1) and mixed short / full spellings
	vers := []string{"v0", "v1", "v1beta1", "v3"}
	spell := func(v string, k int) string {
		if k%3 == 1 {
			return "g.io/" + v
		}
		return v
	}
	var universe []Rule
	for i, a := range vers {
		for j, b := range vers {
			if i != j {
				universe = append(universe, Rule{FromVersion: spell(a, i+j), ToVersion: spell(b, i*j+1)})
			}
		}
	}
	maxSubset := 1 << len(universe)
	step := 1
	if os.Getenv("VERIF_TIER") != "thorough" {
		step = 7 // quick: every 7th subset
	}
	for mask := 1; mask < maxSubset; mask += step {
		var declared []Rule
		for k, r := range universe {
			if mask&(1<<k) != 0 {
				declared = append(declared, r)
			}
		}
		if len(declared) > 5 {
			continue
		}
		for i, a := range vers {
			for j, b := range vers {
				if i != j {
					check(declared, a, b, "")
				}
			}
		}
	}
	// two extensions of one cached path that has spare capacity (slice aliasing)
	for rep := 0; rep < 8; rep++ {
		declared := []Rule{{"a", "b"}, {"b", "c"}, {"c", "d"}, {"d", "e"}, {"d", "f"}}
		check(declared, "a", "e", "-aliasing")
		check(declared, "a", "f", "-aliasing")
	}
	// upgrade-only rule lines (the newest version is never a source) and a fork, every request
	for n := 2; n <= 6; n++ {
		var declared []Rule
		for i := 1; i < n; i++ {
			declared = append(declared, Rule{FromVersion: fmt.Sprintf("v%d", i), ToVersion: fmt.Sprintf("v%d", i+1)})
		}
		declared = append(declared, Rule{FromVersion: "v2", ToVersion: "v2fork"})
		for i := 1; i <= n; i++ {
			for j := 1; j <= n; j++ {
				if i != j {
					check(declared, fmt.Sprintf("v%d", i), fmt.Sprintf("v%d", j), "-line")
					check(declared, fmt.Sprintf("g.io/v%d", i), fmt.Sprintf("v%d", j), "-line")
				}
			}
			check(declared, fmt.Sprintf("v%d", i), "v2fork", "-line")
		}
	}
	fmt.Printf("CONF-STATS evaluated=%d scope=rule sets of <=5 rules over versions {v0,v1,v1beta1,v3} with mixed short/full spellings, all (from,to) requests; upgrade-only lines of 2-6 versions with a fork; every returned chain is sound, and a chain is found whenever the reference search finds one\n", evaluated)
}
