package conversion

// Bounded conformance of the conversion chain search (injected by /verif with
// `go test -overlay`; not part of the repository).

import (
	"fmt"
	"os"
	"strings"
	"testing"
)

func vcTrim(v string) string {
	if i := strings.IndexRune(v, '/'); i >= 0 {
		return v[i+1:]
	}
	return v
}

func vcValid(path []Rule, declared []Rule, from, to string) string {
	if len(path) == 0 {
		return ""
	}
	isDecl := func(r Rule) bool {
		for _, d := range declared {
			if d == r {
				return true
			}
		}
		return false
	}
	if !vcSame(path[0].FromVersion, from) {
		return fmt.Sprintf("starts at %s, not at %s", path[0].FromVersion, from)
	}
	if !vcSame(path[len(path)-1].ToVersion, to) {
		return fmt.Sprintf("ends at %s, not at %s", path[len(path)-1].ToVersion, to)
	}
	for i, r := range path {
		if !isDecl(r) {
			return fmt.Sprintf("step %d (%s) is not a declared rule", i, r)
		}
		if i > 0 && !vcSame(path[i-1].ToVersion, r.FromVersion) {
			return fmt.Sprintf("step %d starts at %s but step %d ended at %s", i, r.FromVersion, i-1, path[i-1].ToVersion)
		}
	}
	return ""
}

// vcSame: two spellings denote the same version: equal, or one of them has no group and the
// versions without group are equal (two different groups are different versions)
func vcSame(a, b string) bool {
	if a == b {
		return true
	}
	if strings.Contains(a, "/") && strings.Contains(b, "/") {
		return false
	}
	return vcTrim(a) == vcTrim(b)
}

// vcReachable: a sequence of declared rules from `from` to `to` in which every step starts at
// the version the previous one ended at (search over rules, not over versions: `same` is not transitive)
func vcReachable(declared []Rule, from, to string) bool {
	seen := map[int]bool{}
	var queue []int
	for i, r := range declared {
		if vcSame(r.FromVersion, from) {
			seen[i] = true
			queue = append(queue, i)
		}
	}
	for len(queue) > 0 {
		i := queue[0]
		queue = queue[1:]
		if vcSame(declared[i].ToVersion, to) {
			return true
		}
		for j, r := range declared {
			if !seen[j] && vcSame(declared[i].ToVersion, r.FromVersion) {
				seen[j] = true
				queue = append(queue, j)
			}
		}
	}
	return false
}

func TestVerifConfChain(t *testing.T) {
	evaluated := 0
	fails := map[string]bool{}
	report := func(c, fn, detail string) {
		if !fails[c] {
			fails[c] = true
			fmt.Printf("CONF-FAIL case=%s fn=%s detail=%s\n", c, fn, detail)
		}
	}
	check := func(declared []Rule, from, to string, tag string) {
		evaluated++
		cs := NewChainStorage()
		ch := cs.Get("crd")
		for _, r := range declared {
			ch.Put(r)
		}
		path := cs.FindConversionChain("crd", Rule{FromVersion: from, ToVersion: to})
		if len(path) == 0 && vcReachable(declared, from, to) {
			report("chain-not-found"+tag, "webhook/conversion.(ChainStorage).FindConversionChain", fmt.Sprintf("rules %v, request %s->%s: a chain exists but none was found", declared, from, to))
		}
		if len(path) > 0 {
			if why := vcValid(path, declared, from, to); why != "" {
				c := "chain-invalid-path"
				if strings.Contains(why, "but step") {
					c = "chain-steps-not-adjacent"
				}
				fn := "webhook/conversion.(Chain).NextRules"
				if c != "chain-steps-not-adjacent" {
					fn = "webhook/conversion.(ChainStorage).FindConversionChain"
				}
				report(c+tag, fn, fmt.Sprintf("rules %v, request %s->%s: got %v: %s", declared, from, to, path, why))
			}
		}
	}
	// versions with a substring trap (v1 / v1beta1) and mixed short / full spellings
	vers := []string{"v0", "v1", "v1beta1", "v3"}
	spell := func(v string, k int) string {
		if k%3 == 1 {
			return "g.io/" + v
		}
		return v
	}
	var universe []Rule
	for i, a := range vers {
		for j, b := range vers {
			if i != j {
				universe = append(universe, Rule{FromVersion: spell(a, i+j), ToVersion: spell(b, i*j+1)})
			}
		}
	}
	maxSubset := 1 << len(universe)
	step := 1
	if os.Getenv("VERIF_TIER") != "thorough" {
		step = 7 // quick: every 7th subset
	}
	for mask := 1; mask < maxSubset; mask += step {
		var declared []Rule
		for k, r := range universe {
			if mask&(1<<k) != 0 {
				declared = append(declared, r)
			}
		}
		if len(declared) > 5 {
			continue
		}
		for i, a := range vers {
			for j, b := range vers {
				if i != j {
					check(declared, a, b, "")
				}
			}
		}
	}
	// two extensions of one cached path that has spare capacity (slice aliasing)
	for rep := 0; rep < 8; rep++ {
		declared := []Rule{{"a", "b"}, {"b", "c"}, {"c", "d"}, {"d", "e"}, {"d", "f"}}
		check(declared, "a", "e", "-aliasing")
		check(declared, "a", "f", "-aliasing")
	}
	// one short version spelled with two different groups: a step must not jump between groups
	for _, tc := range []struct {
		rules    []Rule
		from, to string
	}{
		{[]Rule{{"v1", "a.io/v2"}, {"b.io/v2", "v3"}}, "v1", "v3"},
		{[]Rule{{"v1", "a.io/v2"}, {"b.io/v2", "v3"}, {"a.io/v2", "v4"}}, "v1", "v4"},
		{[]Rule{{"v1", "a.io/v2"}, {"b.io/v2", "v3"}, {"a.io/v2", "v4"}}, "v1", "v3"},
		{[]Rule{{"a.io/v1", "v2"}, {"v2", "b.io/v3"}, {"a.io/v3", "v4"}}, "a.io/v1", "v4"},
		{[]Rule{{"a.io/v1", "v2"}, {"v2", "b.io/v3"}, {"b.io/v3", "v4"}}, "v1", "v4"},
	} {
		check(tc.rules, tc.from, tc.to, "-groups")
	}
	// upgrade-only rule lines (the newest version is never a source) and a fork, every request
	for n := 2; n <= 6; n++ {
		var declared []Rule
		for i := 1; i < n; i++ {
			declared = append(declared, Rule{FromVersion: fmt.Sprintf("v%d", i), ToVersion: fmt.Sprintf("v%d", i+1)})
		}
		declared = append(declared, Rule{FromVersion: "v2", ToVersion: "v2fork"})
		for i := 1; i <= n; i++ {
			for j := 1; j <= n; j++ {
				if i != j {
					check(declared, fmt.Sprintf("v%d", i), fmt.Sprintf("v%d", j), "-line")
					check(declared, fmt.Sprintf("g.io/v%d", i), fmt.Sprintf("v%d", j), "-line")
				}
			}
			check(declared, fmt.Sprintf("v%d", i), "v2fork", "-line")
		}
	}
	// histories: two or three requests answered by ONE storage - the path cache persists between the
	// requests of a CRD, so what an earlier request cached must not hide a chain from a later one
	checkSeq := func(declared []Rule, reqs [][2]string, tag string) {
		evaluated++
		cs := NewChainStorage()
		ch := cs.Get("crd")
		for _, r := range declared {
			ch.Put(r)
		}
		for k, rq := range reqs {
			path := cs.FindConversionChain("crd", Rule{FromVersion: rq[0], ToVersion: rq[1]})
			if len(path) == 0 && vcReachable(declared, rq[0], rq[1]) {
				report("chain-not-found"+tag, "webhook/conversion.(ChainStorage).FindConversionChain", fmt.Sprintf("rules %v, requests %v on one storage: request #%d %s->%s: a chain exists but none was found", declared, reqs, k+1, rq[0], rq[1]))
			}
			if len(path) > 0 {
				if why := vcValid(path, declared, rq[0], rq[1]); why != "" {
					report("chain-invalid-path"+tag, "webhook/conversion.(ChainStorage).FindConversionChain", fmt.Sprintf("rules %v, requests %v on one storage: request #%d got %v: %s", declared, reqs, k+1, path, why))
				}
			}
		}
	}
	for n := 3; n <= 5; n++ {
		var declared []Rule
		var names []string
		for i := 1; i <= n; i++ {
			names = append(names, fmt.Sprintf("v%d", i))
			if i < n {
				declared = append(declared, Rule{FromVersion: fmt.Sprintf("v%d", i), ToVersion: fmt.Sprintf("v%d", i+1)})
			}
		}
		declared = append(declared, Rule{FromVersion: "v2", ToVersion: "v2fork"}, Rule{FromVersion: fmt.Sprintf("v%d", n), ToVersion: "v1"})
		names = append(names, "v2fork")
		var reqs [][2]string
		for _, a := range names {
			for _, b := range names {
				if a != b {
					reqs = append(reqs, [2]string{a, b})
				}
			}
		}
		for _, r1 := range reqs {
			for _, r2 := range reqs {
				if r1 != r2 {
					checkSeq(declared, [][2]string{r1, r2}, "-history")
				}
			}
		}
		// growing targets from one source, then the reverse order
		var grow, shrink [][2]string
		for i := 2; i <= n; i++ {
			grow = append(grow, [2]string{"v1", fmt.Sprintf("v%d", i)})
			shrink = append([][2]string{{"v1", fmt.Sprintf("v%d", i)}}, shrink...)
		}
		checkSeq(declared, grow, "-history")
		checkSeq(declared, shrink, "-history")
	}
	fmt.Printf("CONF-STATS evaluated=%d scope=rule sets of <=5 rules over versions {v0,v1,v1beta1,v3} with mixed short/full spellings, all (from,to) requests; upgrade-only lines of 2-6 versions with a fork; five rule sets spelling one version with two groups; histories of two requests (all ordered pairs) and of growing / shrinking targets on one storage over cyclic lines of 3-5 versions with a fork; every returned chain is sound, and a chain is found whenever the reference search finds one\n", evaluated)
}
