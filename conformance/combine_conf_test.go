package shell_operator

// Bounded conformance of both combine functions against a sequence-level reference, on real
// queues (injected by /verif with `go test -overlay`; not part of the repository).

import (
	"context"
	"fmt"
	"os"
	"strings"
	"testing"

	"github.com/deckhouse/deckhouse/pkg/log"

	bindingcontext "github.com/flant/shell-operator/pkg/hook/binding_context"
	. "github.com/flant/shell-operator/pkg/hook/task_metadata"
	"github.com/flant/shell-operator/pkg/task"
	"github.com/flant/shell-operator/pkg/task/queue"
)

// one queued task of the layout
type vcTaskKind struct {
	name   string
	hook   string        // "" = no metadata
	typ    task.TaskType //
	groups []string      // one binding context per entry, with this group
	mon    []string
}

func TestVerifConfCombine(t *testing.T) {
	t.Setenv("QUEUE_ACTIONS_METRICS", "no")
	evaluated := 0
	report := func(c, fn, detail string) {
		fmt.Printf("CONF-FAIL case=%s fn=%s detail=%s\n", c, fn, detail)
	}
	kinds := []vcTaskKind{
		{"A", "hookA", HookRun, []string{""}, nil},
		{"Ag", "hookA", HookRun, []string{"g1"}, []string{"m1"}},
		{"Agg", "hookA", HookRun, []string{"g1", "g2"}, []string{"m2", "m3"}},
		{"Ah", "hookA", HookRun, []string{"g2", ""}, nil},
		{"B", "hookB", HookRun, []string{"g1"}, nil},
		{"Ax", "hookA", task.TaskType("OtherType"), []string{"g1"}, nil},
		{"N", "", HookRun, nil, nil},
	}
	maxLen := 4
	if os.Getenv("VERIF_TIER") == "thorough" {
		maxLen = 5
	}
	heads := []int{0, 1, 2, 3} // the handled task is one of the hookA HookRun kinds
	var layouts [][]int
	var gen func(cur []int)
	gen = func(cur []int) {
		layouts = append(layouts, append([]int{}, cur...))
		if len(cur) == maxLen {
			return
		}
		for k := range kinds {
			gen(append(cur, k))
		}
	}
	gen(nil)
	op := &ShellOperator{logger: log.NewNop()}
	for _, exported := range []bool{false, true} {
		fn := "shell-operator.(*ShellOperator).combineBindingContextForHook"
		if exported {
			fn = "shell-operator.(*ShellOperator).CombineBindingContextForHook"
		}
		for _, h := range heads {
			for _, rest := range layouts {
				evaluated++
				tqs := queue.NewTaskQueueSet()
				tqs.WithContext(context.Background())
				tqs.NewNamedQueue("q", func(task.Task) queue.TaskResult { return queue.TaskResult{Status: queue.Success} })
				op.TaskQueues = tqs
				q := tqs.GetByName("q")
				layout := append([]int{h}, rest...)
				var tasks []task.Task
				n := 0
				for pos, k := range layout {
					kd := kinds[k]
					tk := task.NewTask(kd.typ).WithQueueName("q")
					tk.Id = fmt.Sprintf("t%d", pos)
					if kd.hook != "" {
						var bcs []bindingcontext.BindingContext
						for _, g := range kd.groups {
							n++
							bc := bindingcontext.BindingContext{Binding: fmt.Sprintf("c%d", n)}
							bc.Metadata.Group = g
							bcs = append(bcs, bc)
						}
						tk.WithMetadata(HookMetadata{HookName: kd.hook, BindingContext: bcs, MonitorIDs: append([]string{}, kd.mon...)})
					}
					tasks = append(tasks, tk)
					q.AddLast(tk)
				}
				// reference
				m := 0
				for m+1 < len(layout) {
					kd := kinds[layout[m+1]]
					if kd.hook != "hookA" || kd.typ != HookRun {
						break
					}
					m++
				}
				var wantCtx, wantMon, wantQueue []string
				if m > 0 {
					var all []bindingcontext.BindingContext
					for i := 0; i <= m; i++ {
						md := tasks[i].GetMetadata().(HookMetadata)
						all = append(all, md.BindingContext...)
						wantMon = append(wantMon, md.MonitorIDs...)
					}
					for i, bc := range all {
						if bc.Metadata.Group != "" && i+1 < len(all) && all[i+1].Metadata.Group == bc.Metadata.Group {
							continue
						}
						wantCtx = append(wantCtx, bc.Binding)
					}
					wantQueue = append(wantQueue, "t0")
					for i := m + 1; i < len(layout); i++ {
						wantQueue = append(wantQueue, fmt.Sprintf("t%d", i))
					}
				} else {
					for i := range layout {
						wantQueue = append(wantQueue, fmt.Sprintf("t%d", i))
					}
				}
				var res *CombineResult
				if exported {
					res = op.CombineBindingContextForHook(q, tasks[0], nil)
				} else {
					res = op.combineBindingContextForHook(tqs, q, tasks[0], nil)
				}
				var names []string
				for _, k := range layout {
					names = append(names, kinds[k].name)
				}
				desc := "layout " + strings.Join(names, ",")
				var gotQueue []string
				q.Iterate(func(tk task.Task) { gotQueue = append(gotQueue, tk.GetId()) })
				if strings.Join(gotQueue, ",") != strings.Join(wantQueue, ",") {
					report("combine-queue-after", fn, fmt.Sprintf("%s: queue after the call %v, want %v", desc, gotQueue, wantQueue))
				}
				if m == 0 {
					if res != nil {
						report("combine-nothing-to-merge", fn, fmt.Sprintf("%s: nothing follows the head for the same hook and type, result %+v", desc, res))
					}
					continue
				}
				if res == nil {
					report("combine-not-merged", fn, fmt.Sprintf("%s: %d tasks follow the head for the same hook, result nil", desc, m))
					continue
				}
				var gotCtx []string
				for _, bc := range res.BindingContexts {
					gotCtx = append(gotCtx, bc.Binding)
				}
				if strings.Join(gotCtx, ",") != strings.Join(wantCtx, ",") {
					report("combine-contexts", fn, fmt.Sprintf("%s: contexts %v, want %v (concatenation in queue order, grouped contexts immediately followed by the same group dropped)", desc, gotCtx, wantCtx))
				}
				if strings.Join(res.MonitorIDs, ",") != strings.Join(wantMon, ",") {
					report("combine-monitor-ids", fn, fmt.Sprintf("%s: monitor ids %v, want %v", desc, res.MonitorIDs, wantMon))
				}
			}
		}
	}
	fmt.Printf("CONF-STATS evaluated=%d scope=both combine functions on real queues: head of 4 kinds x every layout of <= %d following tasks over 7 kinds (same hook with 0-2 groups / monitor ids, other hook, other task type, no metadata); returned contexts, monitor ids and the queue remainder compared with a sequence-level reference\n", evaluated, maxLen)
}
