package hook

// Bounded replay of one hook execution (real Hook.Run, real process, real temporary directory):
// inputs via files, outputs read back, temporary files gone - also when a preparation step fails
// (injected by /verif with `go test -overlay`; not part of the repository).

import (
	"fmt"
	"os"
	"path/filepath"
	"strings"
	"testing"

	bctx "github.com/flant/shell-operator/pkg/hook/binding_context"
	htypes "github.com/flant/shell-operator/pkg/hook/types"
)

func vcRunScript(mode string, record string) string {
	return "#!/usr/bin/env bash\n" +
		"if [[ $1 == \"--config\" ]] ; then\n  echo 'configVersion: v1'\n  echo 'onStartup: 1'\n  exit 0\nfi\n" +
		"{\n" +
		"  echo \"pwd=$(pwd)\"\n" +
		"  for v in BINDING_CONTEXT_PATH METRICS_PATH CONVERSION_RESPONSE_PATH VALIDATING_RESPONSE_PATH ADMISSION_RESPONSE_PATH KUBERNETES_PATCH_PATH ; do\n" +
		"    p=${!v}\n" +
		"    if [[ -f $p ]] ; then echo \"$v file size=$(stat -c %s \"$p\")\" ; else echo \"$v MISSING\" ; fi\n" +
		"  done\n" +
		"  echo \"bindings=$(jq -c '[.[].binding]' $BINDING_CONTEXT_PATH)\"\n" +
		"} > " + record + "\n" +
		"case " + mode + " in\n" +
		"  ok) echo '{\"name\":\"m\",\"action\":\"set\",\"value\":1}' > $METRICS_PATH ;;\n" +
		"  exit3) echo '{\"name\":\"m\",\"action\":\"set\",\"value\":1}' > $METRICS_PATH ; exit 3 ;;\n" +
		"  bad-metrics) echo 'garbage{' > $METRICS_PATH ;;\n" +
		"  stray-closer) echo '{\"name\":\"m\",\"action\":\"set\",\"value\":1}}' > $METRICS_PATH ;;\n" +
		"  bad-admission) echo '{\"allowed\":tr' > $VALIDATING_RESPONSE_PATH ;;\n" +
		"  bad-conversion) echo '{\"convertedObjects\": 5' > $CONVERSION_RESPONSE_PATH ;;\n" +
		"  rm-context) rm -f \"$BINDING_CONTEXT_PATH\" ;;\n" +
		"  rm-metrics) rm -f \"$METRICS_PATH\" ;;\n" +
		"  mv-conversion) mv \"$CONVERSION_RESPONSE_PATH\" \"$CONVERSION_RESPONSE_PATH.moved\" ; rm -f \"$CONVERSION_RESPONSE_PATH.moved\" ;;\n" +
		"esac\n" +
		"exit 0\n"
}

func TestVerifConfHookRunFiles(t *testing.T) {
	evaluated := 0
	report := func(c, detail string) {
		fmt.Printf("CONF-FAIL case=%s fn=hook.(*Hook).Run detail=%s\n", c, detail)
	}
	// the operator's own environment already defines the contract variables (operator started from
	// a hook of an outer operator, or variables set in the pod spec): the execution's files must win
	foreign := t.TempDir()
	for _, v := range []string{"BINDING_CONTEXT_PATH", "METRICS_PATH", "CONVERSION_RESPONSE_PATH", "VALIDATING_RESPONSE_PATH", "ADMISSION_RESPONSE_PATH", "KUBERNETES_PATCH_PATH"} {
		f := filepath.Join(foreign, v)
		os.WriteFile(f, []byte(`[{"binding":"foreign"}]`), 0o644)
		t.Setenv(v, f)
	}
	leftovers := func(dir string) []string {
		es, _ := os.ReadDir(dir)
		var out []string
		for _, e := range es {
			out = append(out, e.Name())
		}
		return out
	}
	contexts := func(n int) []bctx.BindingContext {
		var out []bctx.BindingContext
		for i := 0; i < n; i++ {
			bc := bctx.BindingContext{Binding: fmt.Sprintf("b%d", i)}
			bc.Metadata.BindingType = htypes.OnStartup
			out = append(out, bc)
		}
		return out
	}
	for _, mode := range []string{"ok", "exit3", "bad-metrics", "stray-closer", "bad-admission", "bad-conversion", "rm-context", "rm-metrics", "mv-conversion"} {
		for _, n := range []int{1, 3} {
			evaluated++
			hooksDir := t.TempDir()
			record := filepath.Join(t.TempDir(), "record")
			os.MkdirAll(filepath.Join(hooksDir, "sub"), 0o755)
			os.WriteFile(filepath.Join(hooksDir, "sub", "h.sh"), []byte(vcRunScript(mode, record)), 0o755)
			hm := newHookManager(t, hooksDir)
			if err := hm.Init(); err != nil {
				t.Fatalf("init: %v", err)
			}
			h := hm.GetHook("sub/h.sh")
			res, err := h.Run(htypes.OnStartup, contexts(n), map[string]string{})
			rec, _ := os.ReadFile(record)
			lines := strings.Split(strings.TrimSpace(string(rec)), "\n")
			if left := leftovers(hm.TempDir()); len(left) != 0 {
				report("run-temp-files-left", fmt.Sprintf("mode %s: temporary files left after the execution: %v", mode, left))
			}
			wantErr := mode != "ok" && mode != "rm-context"
			if (err != nil) != wantErr {
				report("run-outcome", fmt.Sprintf("mode %s: error=%v, failure expected=%v", mode, err, wantErr))
			}
			if mode == "ok" && (res == nil || len(res.Metrics) != 1) {
				report("run-outputs-not-read", fmt.Sprintf("mode ok: result %+v", res))
			}
			if len(lines) < 8 {
				report("run-process-not-started", fmt.Sprintf("mode %s: hook record %q", mode, rec))
				continue
			}
			if lines[0] != "pwd="+filepath.Join(hooksDir, "sub") {
				report("run-working-directory", fmt.Sprintf("hook ran in %q, its own directory is %q", lines[0], filepath.Join(hooksDir, "sub")))
			}
			for _, l := range lines[1:7] {
				if strings.HasSuffix(l, "MISSING") {
					report("run-input-file-missing", fmt.Sprintf("mode %s: %s", mode, l))
				} else if !strings.HasPrefix(l, "BINDING_CONTEXT_PATH") && !strings.HasSuffix(l, "size=0") {
					report("run-output-file-not-empty", fmt.Sprintf("mode %s: %s", mode, l))
				}
			}
			var want []string
			for i := 0; i < n; i++ {
				want = append(want, fmt.Sprintf("%q", fmt.Sprintf("b%d", i)))
			}
			if lines[7] != "bindings=["+strings.Join(want, ",")+"]" {
				report("run-binding-context-file", fmt.Sprintf("mode %s: the file held %s, the task has %v", mode, lines[7], want))
			}
		}
	}
	// a preparation step fails after earlier ones succeeded: the third file name is longer than the
	// file system allows (the names embed the hook name), the first two fit
	{
		evaluated++
		hooksDir := t.TempDir()
		name := strings.Repeat("a", 188) + ".sh"
		os.WriteFile(filepath.Join(hooksDir, name), []byte(vcRunScript("ok", "/dev/null")), 0o755)
		hm := newHookManager(t, hooksDir)
		if err := hm.Init(); err != nil {
			t.Fatalf("init: %v", err)
		}
		h := hm.GetHook(name)
		_, err := h.Run(htypes.OnStartup, contexts(1), map[string]string{})
		if err == nil {
			// every name fitted on this file system: nothing to observe
			fmt.Printf("CONF-NOTE long-name scenario did not fail a preparation step here\n")
		} else if left := leftovers(hm.TempDir()); len(left) != 0 {
			short := []string{}
			for _, l := range left {
				short = append(short, l[:12]+"..."+l[len(l)-60:])
			}
			report("run-temp-files-left-after-failed-preparation", fmt.Sprintf("hook name of %d characters: preparing the admission response file failed (%v) and the files prepared before it stay in the temporary directory: %v", len(name), firstLine(err.Error()), short))
		}
	}
	fmt.Printf("CONF-STATS evaluated=%d scope=real Hook.Run with a real process: 9 outcomes (ok, exit 3, malformed metrics, a stray closing brace after a valid metric / admission / conversion output, the hook removes its own context / metrics / conversion file) x 1 and 3 contexts, with the six contract variables already set in the operator's own environment: working directory, 6 environment variables -> the files of this execution (outputs empty), binding context file content, outcome, temporary directory empty afterwards; one execution whose third preparation step fails (file name too long)\n", evaluated)
}

func firstLine(s string) string {
	if i := strings.Index(s, "\n"); i >= 0 {
		s = s[:i]
	}
	if len(s) > 120 {
		s = s[:60] + "..." + s[len(s)-50:]
	}
	return s
}
