package controller

// Bounded replay of Synchronization objects and snapshots against a fake cluster: real
// KubeEventsManager, monitors and informers, real HookController.UpdateSnapshots
// (injected by /verif with `go test -overlay`; not part of the repository).

import (
	"context"
	"fmt"
	"sort"
	"strings"
	"testing"
	"time"

	"github.com/deckhouse/deckhouse/pkg/log"

	"github.com/flant/kube-client/fake"
	bindingcontext "github.com/flant/shell-operator/pkg/hook/binding_context"
	"github.com/flant/shell-operator/pkg/hook/config"
	"github.com/flant/shell-operator/pkg/hook/types"
	kubeeventsmanager "github.com/flant/shell-operator/pkg/kube_events_manager"
	kemtypes "github.com/flant/shell-operator/pkg/kube_events_manager/types"
	metricstorage "github.com/flant/shell-operator/pkg/metric_storage"
)

const vcSnapConfig = `
configVersion: v1
kubernetes:
- name: all-cm
  apiVersion: v1
  kind: ConfigMap
  includeSnapshotsFrom: ["all-cm", "ns1-cm"]
- name: ns1-cm
  apiVersion: v1
  kind: ConfigMap
  namespace:
    nameSelector:
      matchNames: ["ns1"]
  jqFilter: ".data"
- name: named-cm
  apiVersion: v1
  kind: ConfigMap
  keepFullObjectsInMemory: false
  namespace:
    nameSelector:
      matchNames: ["ns2", "ns1"]
- name: grouped-secrets
  apiVersion: v1
  kind: Secret
  group: g
  includeSnapshotsFrom: ["all-cm"]
- name: grouped-third
  apiVersion: v1
  kind: Secret
  group: g
  namespace:
    nameSelector:
      matchNames: ["ns1"]
- name: grouped-cm
  apiVersion: v1
  kind: ConfigMap
  group: g
  namespace:
    nameSelector:
      matchNames: ["ns2"]
schedule:
- name: sched
  crontab: "* * * * *"
  includeSnapshotsFrom: ["ns1-cm"]
- name: gsched
  crontab: "*/5 * * * *"
  group: g
  includeSnapshotsFrom: ["named-cm"]
kubernetesValidating:
- name: adm.example.com
  includeSnapshotsFrom: ["all-cm"]
  rules:
  - apiGroups: [""]
    apiVersions: ["v1"]
    operations: ["*"]
    resources: ["pods"]
    scope: "Namespaced"
kubernetesMutating:
- name: adm.example.com
  includeSnapshotsFrom: ["named-cm"]
  rules:
  - apiGroups: [""]
    apiVersions: ["v1"]
    operations: ["*"]
    resources: ["pods"]
    scope: "Namespaced"
kubernetesCustomResourceConversion:
- name: conv
  crdName: crontabs.example.com
  includeSnapshotsFrom: ["ns1-cm", "all-cm"]
  conversions:
  - fromVersion: v1
    toVersion: v2
`

func vcNames(objs []kemtypes.ObjectAndFilterResult) []string {
	var out []string
	for _, o := range objs {
		out = append(out, o.Metadata.ResourceId)
	}
	return out
}

func TestVerifConfSnapshots(t *testing.T) {
	evaluated := 0
	report := func(c, fn, detail string) {
		fmt.Printf("CONF-FAIL case=%s fn=%s detail=%s\n", c, fn, detail)
	}
	fc := fake.NewFakeCluster(fake.ClusterVersionV121)
	for _, ns := range []string{"ns1", "ns2"} {
		fc.CreateNs(ns)
	}
	cms := map[string]bool{} // "ns/name"
	secrets := map[string]bool{}
	createCM := func(ns, name string) {
		fc.CreateSimpleNamespaced(ns, "ConfigMap", name)
		cms[ns+"/"+name] = true
	}
	createSecret := func(ns, name string) {
		fc.CreateSimpleNamespaced(ns, "Secret", name)
		secrets[ns+"/"+name] = true
	}
	for _, x := range [][2]string{{"ns2", "b"}, {"ns1", "c"}, {"ns1", "a"}, {"ns2", "a"}, {"ns1", "b"}} {
		createCM(x[0], x[1])
	}
	createSecret("ns2", "s2")
	createSecret("ns1", "s1")

	// the expected content of each binding, from the cluster state kept by the test
	expected := func(binding string) []string {
		var out []string
		add := func(set map[string]bool, kind string, keep func(ns, name string) bool) {
			for k := range set {
				p := strings.SplitN(k, "/", 2)
				if keep(p[0], p[1]) {
					out = append(out, p[0]+"/"+kind+"/"+p[1])
				}
			}
		}
		switch binding {
		case "all-cm":
			add(cms, "ConfigMap", func(ns, n string) bool { return true })
		case "ns1-cm":
			add(cms, "ConfigMap", func(ns, n string) bool { return ns == "ns1" })
		case "named-cm":
			add(cms, "ConfigMap", func(ns, n string) bool { return true })
		case "grouped-secrets":
			add(secrets, "Secret", func(ns, n string) bool { return true })
		case "grouped-cm":
			add(cms, "ConfigMap", func(ns, n string) bool { return ns == "ns2" })
		case "grouped-third":
			add(secrets, "Secret", func(ns, n string) bool { return ns == "ns1" })
		}
		sort.Slice(out, func(i, j int) bool {
			a, b := strings.Split(out[i], "/"), strings.Split(out[j], "/")
			if a[0] != b[0] {
				return a[0] < b[0]
			}
			return a[2] < b[2]
		})
		return out
	}

	testCfg := &config.HookConfig{}
	if err := testCfg.LoadAndValidate([]byte(vcSnapConfig)); err != nil {
		t.Fatalf("config: %v", err)
	}
	start := func() (*HookController, map[string][]string) {
		mgr := kubeeventsmanager.NewKubeEventsManager(context.Background(), fc.Client, log.NewNop())
		mgr.WithMetricStorage(metricstorage.NewMetricStorage(context.Background(), "vc_", true, log.NewNop()))
		go func() {
			for range mgr.Ch() {
			}
		}()
		hc := NewHookController()
		hc.InitKubernetesBindings(testCfg.OnKubernetesEvents, mgr, log.NewNop())
		// the other binding kinds only contribute their includeSnapshotsFrom lists here
		hc.scheduleBindings = testCfg.Schedules
		hc.validatingBindings = testCfg.KubernetesValidating
		hc.mutatingBindings = testCfg.KubernetesMutating
		hc.conversionBindings = testCfg.KubernetesConversion
		sync := map[string][]string{}
		err := hc.HandleEnableKubernetesBindings(func(info BindingExecutionInfo) {
			for _, bc := range info.BindingContext {
				sync[bc.Binding] = vcNames(bc.Objects)
			}
		})
		if err != nil {
			t.Fatalf("enable kubernetes bindings: %v", err)
		}
		return hc, sync
	}
	bindings := []string{"all-cm", "ns1-cm", "named-cm", "grouped-secrets", "grouped-cm", "grouped-third"}
	wantKeys := map[string][]string{
		"all-cm": {"all-cm", "ns1-cm"}, "ns1-cm": {}, "named-cm": {},
		// a group of three kubernetes bindings (three names: the group's list has spare capacity); two
		// members of the group (one kubernetes binding, one schedule) name a different binding of their own
		"grouped-secrets": {"all-cm", "grouped-cm", "grouped-secrets", "grouped-third"}, "grouped-cm": {"grouped-cm", "grouped-secrets", "grouped-third"},
		"grouped-third": {"grouped-cm", "grouped-secrets", "grouped-third"},
	}
	check := func(phase string, hc *HookController) {
		// one execution with a Synchronization and an Event context of every binding
		var bcs []bindingcontext.BindingContext
		for _, b := range bindings {
			for _, typ := range []kemtypes.KubeEventType{kemtypes.TypeSynchronization, kemtypes.TypeEvent} {
				bc := bindingcontext.BindingContext{Binding: b, Type: typ}
				bc.Metadata.BindingType = types.OnKubernetesEvent
				bcs = append(bcs, bc)
			}
		}
		// one context of every other binding kind: its snapshots are those its own binding names
		other := []struct {
			typ  types.BindingType
			name string
			want []string
		}{
			{types.Schedule, "sched", []string{"ns1-cm"}},
			{types.Schedule, "gsched", []string{"grouped-cm", "grouped-secrets", "grouped-third", "named-cm"}},
			{types.KubernetesValidating, "adm.example.com", []string{"all-cm"}},
			{types.KubernetesMutating, "adm.example.com", []string{"named-cm"}},
			{types.KubernetesConversion, "conv", []string{"all-cm", "ns1-cm"}},
		}
		nKube := len(bcs)
		for _, o := range other {
			bc := bindingcontext.BindingContext{Binding: o.name}
			bc.Metadata.BindingType = o.typ
			bcs = append(bcs, bc)
		}
		deadline := time.Now().Add(5 * time.Second)
		for {
			evaluated++
			res := hc.UpdateSnapshots(bcs)
			var problems []string
			seen := map[string]string{}
			for i, bc := range res {
				b := bcs[i].Binding
				var keys []string
				for k := range bc.Snapshots {
					keys = append(keys, k)
				}
				sort.Strings(keys)
				want := wantKeys[b]
				if i >= nKube {
					want = other[i-nKube].want
					b = string(other[i-nKube].typ) + " binding " + b
				}
				if strings.Join(keys, ",") != strings.Join(want, ",") {
					problems = append(problems, fmt.Sprintf("keys|binding %s: snapshots keys %v, want %v", b, keys, want))
				}
				lists := map[string][]string{}
				for k, v := range bc.Snapshots {
					lists[k] = vcNames(v)
				}
				if bcs[i].Type == kemtypes.TypeSynchronization {
					lists[b+" (objects)"] = vcNames(bc.Objects)
				}
				for k, got := range lists {
					name := strings.TrimSuffix(k, " (objects)")
					if strings.Join(got, ",") != strings.Join(expected(name), ",") {
						problems = append(problems, fmt.Sprintf("content|binding %s shows %s = %v, the cluster has %v", b, k, got, expected(name)))
					}
					if prev, ok := seen[name]; ok && prev != strings.Join(got, ",") {
						problems = append(problems, fmt.Sprintf("consistency|binding %s appears as %s and as %v in one execution", name, prev, got))
					}
					seen[name] = strings.Join(got, ",")
				}
			}
			if len(problems) == 0 {
				return
			}
			if time.Now().After(deadline) {
				for _, p := range problems {
					kv := strings.SplitN(p, "|", 2)
					report("snapshots-"+kv[0], "hook/controller.(*HookController).UpdateSnapshots", phase+": "+kv[1])
				}
				return
			}
			time.Sleep(50 * time.Millisecond) // informers deliver changes asynchronously
		}
	}
	hc, _ := start()
	check("after start", hc)
	createCM("ns2", "zz")
	createCM("ns1", "0first")
	createSecret("ns1", "a-secret")
	check("after three objects were added", hc)
	fc.DeleteSimpleNamespaced("ns1", "ConfigMap", "b")
	delete(cms, "ns1/b")
	fc.DeleteSimpleNamespaced("ns2", "Secret", "s2")
	delete(secrets, "ns2/s2")
	check("after two objects were deleted", hc)
	hc2, _ := start()
	check("after a restart", hc2)
	// two bindings that share a binding name (both unnamed => "kubernetes"): each Synchronization
	// must show the objects of its own binding
	{
		evaluated++
		dupCfg := &config.HookConfig{}
		err := dupCfg.LoadAndValidate([]byte("configVersion: v1\nkubernetes:\n- apiVersion: v1\n  kind: ConfigMap\n  namespace:\n    nameSelector:\n      matchNames: [\"ns1\"]\n- apiVersion: v1\n  kind: Secret\n"))
		if err == nil {
			mgr := kubeeventsmanager.NewKubeEventsManager(context.Background(), fc.Client, log.NewNop())
			mgr.WithMetricStorage(metricstorage.NewMetricStorage(context.Background(), "vcd_", true, log.NewNop()))
			go func() {
				for range mgr.Ch() {
				}
			}()
			hcd := NewHookController()
			hcd.InitKubernetesBindings(dupCfg.OnKubernetesEvents, mgr, log.NewNop())
			var infos []BindingExecutionInfo
			if err := hcd.HandleEnableKubernetesBindings(func(info BindingExecutionInfo) { infos = append(infos, info) }); err != nil {
				t.Fatalf("enable: %v", err)
			}
			for i, info := range infos {
				res := hcd.UpdateSnapshots(info.BindingContext)
				kind := []string{"ConfigMap", "Secret"}[i%2]
				for _, bc := range res {
					for _, o := range bc.Objects {
						if !strings.Contains(o.Metadata.ResourceId, "/"+kind+"/") {
							report("snapshots-duplicate-binding-name", "hook/controller.(*kubernetesBindingsController).SnapshotsFor", fmt.Sprintf("two unnamed kubernetes bindings (ConfigMap in ns1, Secret): the Synchronization of binding #%d (%s) shows %v", i+1, kind, vcNames(bc.Objects)))
							break
						}
					}
				}
			}
		}
	}
	fmt.Printf("CONF-STATS evaluated=%d scope=fake cluster (2 namespaces, 7 config maps, 3 secrets, adds and deletes), 6 kubernetes bindings (all namespaces / one namespace + jqFilter / two namespaces without full objects / three sharing a group, one of them and a schedule of the group naming a further binding each): one execution with a Synchronization and an Event context of every binding plus one context of two schedules, a validating, a mutating (same name as the validating one) and a conversion binding after each change: keys of snapshots, content = matching objects each once in (namespace, name) order, identical everywhere\n", evaluated)
}
