package metricstorage

// Bounded replay with a forced schedule (injected by /verif with `go test -overlay`; not part of the
// repository): two hooks send, at the same time, their first valid batch for a grouped metric name
// nobody reported before. A wrapping Registerer holds the first collector registration until a second
// one has completed (or 300 ms have passed - the path of code that registers under the vault's lock).
// Both batches are accepted, so both series must be exported afterwards.

import (
	"context"
	"fmt"
	"sort"
	"strings"
	"sync"
	"sync/atomic"
	"testing"
	"time"

	"github.com/deckhouse/deckhouse/pkg/log"
	"github.com/prometheus/client_golang/prometheus"

	"github.com/flant/shell-operator/pkg/metric_storage/operation"
	"github.com/flant/shell-operator/pkg/metric_storage/vault"
)

type vcrGate struct {
	prometheus.Registerer
	calls      int32
	entered    chan struct{}
	secondDone chan struct{}
}

func (r *vcrGate) Register(c prometheus.Collector) error {
	switch atomic.AddInt32(&r.calls, 1) {
	case 1:
		close(r.entered)
		select {
		case <-r.secondDone:
		case <-time.After(300 * time.Millisecond):
		}
		return r.Registerer.Register(c)
	case 2:
		err := r.Registerer.Register(c)
		close(r.secondDone)
		return err
	}
	return r.Registerer.Register(c)
}

func TestVerifConfMetricsRace(t *testing.T) {
	evaluated := 0
	for _, action := range []string{"add", "set"} {
		for _, sameGroup := range []bool{false} {
			evaluated++
			m := NewMetricStorage(context.Background(), "", true, log.NewNop())
			gv, ok := m.Grouped().(*vault.GroupedVault)
			if !ok {
				continue
			}
			gate := &vcrGate{Registerer: m.Registry, entered: make(chan struct{}), secondDone: make(chan struct{})}
			gv.SetRegisterer(gate)
			name := "vc_race_" + action
			one := 1.0
			send := func(hook, group string) error {
				return m.SendBatch([]operation.MetricOperation{{Name: name, Group: group, Action: action, Value: &one, Labels: map[string]string{"kind": "pod"}}}, map[string]string{"hook": hook})
			}
			groupB := "group-b"
			if sameGroup {
				groupB = "group-a"
			}
			var wg sync.WaitGroup
			errs := make([]error, 2)
			wg.Add(1)
			go func() { defer wg.Done(); errs[0] = send("hook-a", "group-a") }()
			select {
			case <-gate.entered:
			case <-time.After(5 * time.Second):
			}
			wg.Add(1)
			go func() { defer wg.Done(); errs[1] = send("hook-b", groupB) }()
			wg.Wait()
			var got []string
			fams, _ := m.Registry.Gather()
			for _, f := range fams {
				if f.GetName() != name {
					continue
				}
				for _, pm := range f.GetMetric() {
					for _, lp := range pm.GetLabel() {
						if lp.GetName() == "hook" {
							got = append(got, lp.GetValue())
						}
					}
				}
			}
			sort.Strings(got)
			want := "hook-a,hook-b"
			if sameGroup && action == "set" {
				// same group, same labels apart from the hook label: still two series
				want = "hook-a,hook-b"
			}
			if errs[0] == nil && errs[1] == nil && strings.Join(got, ",") != want {
				fmt.Printf("CONF-FAIL case=metrics-concurrent-first-report-lost fn=metric_storage.(*MetricStorage).SendBatch detail=two hooks send their first valid batch for the new grouped metric %q (action %s, same group: %v) at the same time, both batches are accepted, exported series of hooks: [%s], want [%s]\n", name, action, sameGroup, strings.Join(got, ","), want)
			}
		}
	}
	fmt.Printf("CONF-STATS evaluated=%d scope=forced schedule: two concurrent first reports of one new grouped metric name (counter / gauge, different groups), the first collector registration held until the second has completed\n", evaluated)
}
