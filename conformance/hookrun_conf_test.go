package shell_operator

// Bounded replay of hook runs through the real operator and queue with real hook scripts
// (injected by /verif with `go test -overlay`; not part of the repository).

import (
	"context"
	"encoding/json"
	"fmt"
	"os"
	"path/filepath"
	"sort"
	"testing"
	"time"

	"github.com/deckhouse/deckhouse/pkg/log"

	bindingcontext "github.com/flant/shell-operator/pkg/hook/binding_context"
	. "github.com/flant/shell-operator/pkg/hook/task_metadata"
	htypes "github.com/flant/shell-operator/pkg/hook/types"
	metricstorage "github.com/flant/shell-operator/pkg/metric_storage"
	"github.com/flant/shell-operator/pkg/task"
	"github.com/flant/shell-operator/pkg/task/queue"
)

type vcRunScenario struct {
	name   string
	fails  int    // the hook fails this many times, then succeeds
	allow  []bool // allowFailure of the three schedule tasks
	expect []string
}

func vcHookRun(t *testing.T, sc vcRunScenario) (handled []string, runs [][]string) {
	t.Setenv("QUEUE_ACTIONS_METRICS", "no")
	hooksDir, tempDir, outDir := t.TempDir(), t.TempDir(), t.TempDir()
	script := "#!/usr/bin/env bash\n" +
		"if [[ $1 == \"--config\" ]] ; then\n" +
		"cat <<CONFIG\n" +
		"configVersion: v1\n" +
		"schedule:\n" +
		"- name: b0\n  crontab: \"* * * * *\"\n" +
		"- name: b1\n  crontab: \"*/2 * * * *\"\n" +
		"- name: b2\n  crontab: \"*/3 * * * *\"\n" +
		"CONFIG\n" +
		"exit 0\nfi\n" +
		fmt.Sprintf("out=%q\n", outDir) +
		"n=$(ls \"$out\" | wc -l)\nn=$((n+1))\ncp \"$BINDING_CONTEXT_PATH\" \"$out/run-$n.json\"\n" +
		fmt.Sprintf("if [[ $n -le %d ]] ; then exit 1 ; fi\nexit 0\n", sc.fails)
	os.WriteFile(filepath.Join(hooksDir, "hook.sh"), []byte(script), 0o755)

	ctx, cancel := context.WithCancel(context.Background())
	defer cancel()
	op := NewShellOperator(ctx, WithLogger(log.NewNop()))
	op.MetricStorage = metricstorage.NewMetricStorage(ctx, "vc_", true, log.NewNop())
	op.HookMetricStorage = metricstorage.NewMetricStorage(ctx, "vch_", true, log.NewNop())
	op.SetupEventManagers()
	op.setupHookManagers(hooksDir, tempDir)
	if err := op.initHookManager(); err != nil {
		t.Fatalf("init hook manager: %v", err)
	}
	hookName := op.HookManager.GetHookNames()[0]

	const markerType task.TaskType = "VerifMarker"
	doneCh := make(chan struct{})
	op.TaskQueues.NewNamedQueue("main", func(tsk task.Task) queue.TaskResult {
		if tsk.GetType() == markerType {
			handled = append(handled, "marker")
			return queue.TaskResult{Status: queue.Success, AfterHandle: func() { close(doneCh) }}
		}
		res := op.taskHandler(tsk)
		handled = append(handled, "hook:"+string(res.Status))
		return res
	})
	q := op.TaskQueues.GetByName("main")
	q.WaitLoopCheckInterval = 2 * time.Millisecond
	q.DelayOnQueueIsEmpty = 2 * time.Millisecond
	q.DelayOnRepeat = 2 * time.Millisecond
	q.ExponentialBackoffFn = func(_ int) time.Duration { return 5 * time.Millisecond }
	for i, allow := range sc.allow {
		b := fmt.Sprintf("b%d", i)
		bc := bindingcontext.BindingContext{Binding: b}
		bc.Metadata.BindingType = htypes.Schedule
		q.AddLast(task.NewTask(HookRun).WithQueueName("main").WithMetadata(HookMetadata{
			HookName: hookName, BindingType: htypes.Schedule, Binding: b, AllowFailure: allow,
			BindingContext: []bindingcontext.BindingContext{bc},
		}).WithQueuedAt(time.Now()))
	}
	q.AddLast(task.NewTask(markerType).WithQueueName("main").WithMetadata(HookMetadata{HookName: "not-a-hook"}))
	q.Start()
	select {
	case <-doneCh:
	case <-time.After(45 * time.Second):
		handled = append(handled, "TIMEOUT")
	}
	op.TaskQueues.Stop()
	files, _ := filepath.Glob(filepath.Join(outDir, "run-*.json"))
	sort.Strings(files)
	for _, f := range files {
		data, _ := os.ReadFile(f)
		var ctxs []map[string]interface{}
		json.Unmarshal(data, &ctxs)
		var got []string
		for _, c := range ctxs {
			got = append(got, fmt.Sprint(c["binding"]))
		}
		runs = append(runs, got)
	}
	return handled, runs
}

func TestVerifConfHookRun(t *testing.T) {
	evaluated := 0
	report := func(c, detail string) {
		fmt.Printf("CONF-FAIL case=%s fn=shell-operator.(*ShellOperator).taskHandleHookRun detail=%s\n", c, detail)
	}
	all := []string{"b0", "b1", "b2"}
	// 1. k failures then success, nobody allows failure: retried with the same contexts, the queue is blocked
	for _, k := range []int{0, 1, 2, 3} {
		evaluated++
		handled, runs := vcHookRun(t, vcRunScenario{fails: k, allow: []bool{false, false, false}})
		var want []string
		for i := 0; i < k; i++ {
			want = append(want, "hook:Fail")
		}
		want = append(want, "hook:Success", "marker")
		if fmt.Sprint(handled) != fmt.Sprint(want) {
			report("hookrun-retry-order", fmt.Sprintf("%d failures then success: handled %v, want %v", k, handled, want))
		}
		for i, r := range runs {
			if fmt.Sprint(r) != fmt.Sprint(all) {
				report("hookrun-retry-loses-contexts", fmt.Sprintf("%d failures then success: execution %d got contexts %v, want %v", k, i+1, r, all))
				break
			}
		}
	}
	// 2. the head allows failure, a merged task does not: its context must not be discarded by a failed run
	{
		evaluated++
		handled, runs := vcHookRun(t, vcRunScenario{fails: 1, allow: []bool{true, false, true}})
		executedB1Successfully := false
		for i, r := range runs {
			for _, b := range r {
				if b == "b1" && i >= 1 { // runs after the first (failing) one succeed
					executedB1Successfully = true
				}
			}
		}
		if !executedB1Successfully {
			report("hookrun-allowfailure-merged", fmt.Sprintf("head allowFailure=true merged with a task allowFailure=false, first run fails: handled %v, executions %v - the context of the strict binding was discarded", handled, runs))
		}
	}
	// 3. everybody allows failure: the failed execution is dropped and the queue proceeds
	{
		evaluated++
		handled, _ := vcHookRun(t, vcRunScenario{fails: 1, allow: []bool{true, true, true}})
		if fmt.Sprint(handled) != fmt.Sprint([]string{"hook:Success", "marker"}) {
			report("hookrun-allowfailure-drops", fmt.Sprintf("all allow failure, run fails: handled %v", handled))
		}
	}
	fmt.Printf("CONF-STATS evaluated=%d scope=real operator + queue + hook script: 3 schedule tasks of one hook and a marker task; 0..3 failures then success; allowFailure patterns FFF, TFT, TTT\n", evaluated)
}
