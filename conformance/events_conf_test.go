package shell_operator

// Bounded replay of event routing: the real ManagerEventsHandler and TaskQueueSet fed by
// channel-backed event sources; the tasks produced for one event carry different queue names
// (injected by /verif with `go test -overlay`; not part of the repository).

import (
	"context"
	"fmt"
	"strings"
	"testing"
	"time"

	"github.com/deckhouse/deckhouse/pkg/log"

	kubeeventsmanager "github.com/flant/shell-operator/pkg/kube_events_manager"
	kemtypes "github.com/flant/shell-operator/pkg/kube_events_manager/types"
	schedulemanager "github.com/flant/shell-operator/pkg/schedule_manager"
	"github.com/flant/shell-operator/pkg/task"
	"github.com/flant/shell-operator/pkg/task/queue"
)

type vcFakeSchedules struct {
	schedulemanager.ScheduleManager
	ch chan string
}

func (f *vcFakeSchedules) Ch() chan string { return f.ch }

type vcFakeKube struct {
	kubeeventsmanager.KubeEventsManager
	ch chan kemtypes.KubeEvent
}

func (f *vcFakeKube) Ch() chan kemtypes.KubeEvent { return f.ch }

func TestVerifConfEventRouting(t *testing.T) {
	t.Setenv("QUEUE_ACTIONS_METRICS", "no")
	evaluated := 0
	report := func(c, detail string) {
		fmt.Printf("CONF-FAIL case=%s fn=shell-operator.(*ManagerEventsHandler).Start$1$1 detail=%s\n", c, detail)
	}
	queueNames := []string{"main", "a", "b"}
	// every sequence of queue names of length <= 3 (an event producing that many tasks), including
	// a queue that does not exist
	alphabet := []string{"main", "a", "b", "missing"}
	var patterns [][]string
	var gen func(cur []string, n int)
	gen = func(cur []string, n int) {
		if len(cur) > 0 {
			patterns = append(patterns, append([]string{}, cur...))
		}
		if n == 0 {
			return
		}
		for _, q := range alphabet {
			gen(append(cur, q), n-1)
		}
	}
	gen(nil, 3)
	for _, viaKube := range []bool{false, true} {
		ctx, cancel := context.WithCancel(context.Background())
		tqs := queue.NewTaskQueueSet()
		tqs.WithContext(ctx)
		for _, qn := range queueNames {
			// queues are created but never started: their content is the observable
			tqs.NewNamedQueue(qn, func(task.Task) queue.TaskResult { return queue.TaskResult{Status: queue.Success} })
		}
		sch := &vcFakeSchedules{ch: make(chan string)}
		kube := &vcFakeKube{ch: make(chan kemtypes.KubeEvent)}
		h := newManagerEventsHandler(ctx, &managerEventsHandlerConfig{tqs: tqs, mgr: kube, smgr: sch, logger: log.NewNop()})
		var next []string
		n := 0
		produced := make(chan struct{})
		produce := func() []task.Task {
			defer func() { produced <- struct{}{} }()
			var out []task.Task
			for _, qn := range next {
				n++
				tk := task.NewTask("HookRun").WithQueueName(qn)
				tk.Id = fmt.Sprintf("t%04d:%s", n, qn)
				out = append(out, tk)
			}
			return out
		}
		h.WithScheduleEventHandler(func(string) []task.Task { return produce() })
		h.WithKubeEventHandler(func(kemtypes.KubeEvent) []task.Task { return produce() })
		h.Start()
		want := map[string][]string{}
		for _, p := range patterns {
			evaluated++
			next = p
			first := n
			if viaKube {
				kube.ch <- kemtypes.KubeEvent{}
			} else {
				sch.ch <- "* * * * *"
			}
			<-produced
			for i, qn := range p {
				if qn != "missing" {
					want[qn] = append(want[qn], fmt.Sprintf("t%04d:%s", first+i+1, qn))
				}
			}
		}
		// one more event: when it has been received the previous one is fully processed
		next = nil
		sch.ch <- "sync"
		<-produced
		time.Sleep(20 * time.Millisecond)
		for _, qn := range queueNames {
			var got []string
			tqs.GetByName(qn).Iterate(func(tk task.Task) { got = append(got, tk.GetId()) })
			if strings.Join(got, ",") != strings.Join(want[qn], ",") {
				bad := ""
				for i := range got {
					if i >= len(want[qn]) || got[i] != want[qn][i] {
						bad = got[i]
						break
					}
				}
				report("event-tasks-misrouted", fmt.Sprintf("viaKube=%v queue %s holds %d tasks, expected %d; first unexpected task %q (a task id ends with the queue its binding names)", viaKube, qn, len(got), len(want[qn]), bad))
			}
		}
		cancel()
	}
	fmt.Printf("CONF-STATS evaluated=%d scope=real ManagerEventsHandler + TaskQueueSet (queues main, a, b): every event producing 1..3 tasks over queue names {main,a,b,missing}, via schedule and via kubernetes events; queue contents compared with per-queue arrival order\n", evaluated)
}
