package shell_operator

// Bounded replay of the conversion event handler with a real conversion hook script (injected
// by /verif with `go test -overlay`; not part of the repository).

import (
	"context"
	"fmt"
	"os"
	"path/filepath"
	"strings"
	"testing"

	"github.com/deckhouse/deckhouse/pkg/log"
	v1 "k8s.io/apiextensions-apiserver/pkg/apis/apiextensions/v1"
	"k8s.io/apimachinery/pkg/runtime"

	metricstorage "github.com/flant/shell-operator/pkg/metric_storage"
)

const vcConvHook = `#!/usr/bin/env bash
if [[ $1 == "--config" ]] ; then
cat <<CONFIG
configVersion: v1
kubernetesCustomResourceConversion:
- name: conv
  crdName: crontabs.stable.example.com
  conversions:
  - fromVersion: stable.example.com/v1
    toVersion: stable.example.com/v2
  - fromVersion: stable.example.com/v2
    toVersion: stable.example.com/v3
CONFIG
exit 0
fi
mode=$(cat "$(dirname $0)/../mode")
from=$(jq -r '.[0].fromVersion' $BINDING_CONTEXT_PATH)
to=$(jq -r '.[0].toVersion' $BINDING_CONTEXT_PATH)
echo "$from->$to objects=$(jq -r '.[0].review.request.objects | length' $BINDING_CONTEXT_PATH)" >> "$(dirname $0)/../calls.log"
case "$mode" in
  fail-first)
    if [[ $from == "stable.example.com/v1" ]] ; then
      echo '{"failedMessage":"my own reason"}' > $CONVERSION_RESPONSE_PATH
      exit 0
    fi ;;
  drop-object)
    jq --arg to "$to" '{convertedObjects: [ .[0].review.request.objects[0] | .apiVersion = $to ]}' $BINDING_CONTEXT_PATH > $CONVERSION_RESPONSE_PATH
    exit 0 ;;
esac
jq --arg to "$to" '{convertedObjects: [ .[0].review.request.objects[] | .apiVersion = $to ]}' $BINDING_CONTEXT_PATH > $CONVERSION_RESPONSE_PATH
`

func TestVerifConfConversionHandler(t *testing.T) {
	evaluated := 0
	report := func(c, fn, detail string) {
		fmt.Printf("CONF-FAIL case=%s fn=%s detail=%s\n", c, fn, detail)
	}
	for _, mode := range []string{"ok", "fail-first", "drop-object"} {
		evaluated++
		base := t.TempDir()
		hooksDir := filepath.Join(base, "hooks")
		os.MkdirAll(hooksDir, 0o755)
		os.WriteFile(filepath.Join(hooksDir, "conv.sh"), []byte(vcConvHook), 0o755)
		os.WriteFile(filepath.Join(base, "mode"), []byte(mode), 0o644)

		op := NewShellOperator(context.Background(), WithLogger(log.NewNop()))
		op.MetricStorage = metricstorage.NewMetricStorage(context.Background(), "p_", true, log.NewNop())
		op.HookMetricStorage = metricstorage.NewMetricStorage(context.Background(), "p_", true, log.NewNop())
		op.SetupEventManagers()
		op.setupHookManagers(hooksDir, t.TempDir())
		if err := op.HookManager.Init(); err != nil {
			t.Fatalf("hook manager init: %v", err)
		}
		for _, name := range op.HookManager.GetHookNames() {
			op.HookManager.GetHook(name).HookController.EnableConversionBindings()
		}
		obj := func(n string) runtime.RawExtension {
			return runtime.RawExtension{Raw: []byte(`{"apiVersion":"stable.example.com/v1","kind":"CronTab","metadata":{"name":"` + n + `"}}`)}
		}
		req := &v1.ConversionRequest{UID: "u1", DesiredAPIVersion: "stable.example.com/v3", Objects: []runtime.RawExtension{obj("a"), obj("b")}}
		resp, err := op.conversionEventHandler("crontabs.stable.example.com", req)
		callsB, _ := os.ReadFile(filepath.Join(base, "calls.log"))
		calls := strings.Fields(strings.ReplaceAll(strings.TrimSpace(string(callsB)), " objects=", "#"))
		if len(req.Objects) != 2 {
			report("conversion-request-overwritten", "shell-operator.(*ShellOperator).conversionEventHandler", fmt.Sprintf("mode %s: the caller's request has %d objects after the call, 2 before", mode, len(req.Objects)))
		}
		switch mode {
		case "ok":
			if err != nil || resp == nil || resp.FailedMessage != "" || len(resp.ConvertedObjects) != 2 || len(calls) != 2 {
				report("conversion-chain-ok", "shell-operator.(*ShellOperator).conversionEventHandler", fmt.Sprintf("resp=%+v err=%v calls=%v", resp, err, calls))
			}
		case "fail-first":
			if err == nil && (resp == nil || resp.FailedMessage != "my own reason") {
				report("conversion-failed-message-not-relayed", "shell-operator.(*ShellOperator).conversionEventHandler", fmt.Sprintf("hook said 'my own reason', answer is %+v", resp))
			}
			if len(calls) != 1 {
				report("conversion-step-after-failure", "shell-operator.(*ShellOperator).conversionEventHandler", fmt.Sprintf("hook invocations after a failed step: %v", calls))
			}
		case "drop-object":
			if err == nil && resp != nil && resp.FailedMessage == "" && len(resp.ConvertedObjects) != 2 && len(req.Objects) == len(resp.ConvertedObjects) {
				report("conversion-object-count-unchecked", "shell-operator.(*ShellOperator).conversionEventHandler", fmt.Sprintf("2 objects requested, %d converted, and the request now also has %d: the count check cannot fail", len(resp.ConvertedObjects), len(req.Objects)))
			}
		}
	}
	fmt.Printf("CONF-STATS evaluated=%d scope=real conversion hook (rules v1->v2->v3), 2 objects, modes ok / first step reports failedMessage / every step drops an object\n", evaluated)
}
