package hook

// Bounded conformance of hook manager initialisation on real hook scripts (injected by /verif
// with `go test -overlay`; not part of the repository).

import (
	"fmt"
	"os"
	"path/filepath"
	"sort"
	"strings"
	"testing"
)

func TestVerifConfInit(t *testing.T) {
	evaluated := 0
	report := func(c, fn, detail string) {
		fmt.Printf("CONF-FAIL case=%s fn=%s detail=%s\n", c, fn, detail)
	}
	layouts := [][]string{
		{"common/hook.sh", "common-a.sh", "common.sh", "zz/last.sh"},
		{"b.sh", "a.sh", "a/b.sh", "a/a.sh", "a.b/c.sh", "B.sh"},
		{"001-foo/h.sh", "001-foo.sh", "001-foo+x.sh", "010.sh", "002/x/y.sh"},
	}
	for li, files := range layouts {
		evaluated++
		hooksDir := t.TempDir()
		logFile := filepath.Join(t.TempDir(), "config-calls.log")
		script := "#!/usr/bin/env bash\nif [[ $1 == \"--config\" ]] ; then\n  echo \"$0\" >> " + logFile + "\n  echo 'configVersion: v1'\n  echo 'onStartup: 10'\nfi\n"
		for _, f := range files {
			full := filepath.Join(hooksDir, f)
			os.MkdirAll(filepath.Dir(full), 0o755)
			os.WriteFile(full, []byte(script), 0o755)
		}
		hm := newHookManager(t, hooksDir)
		if err := hm.Init(); err != nil {
			report(fmt.Sprintf("init-error-%d", li), "hook.(*Manager).Init", err.Error())
			continue
		}
		want := append([]string{}, files...)
		sort.Strings(want)
		got := hm.GetHookNames()
		if strings.Join(got, ",") != strings.Join(want, ",") {
			report("init-load-order", "hook.(*Manager).Init", fmt.Sprintf("hook names %v, lexical order of paths is %v", got, want))
		}
		data, _ := os.ReadFile(logFile)
		var calls []string
		for _, l := range strings.Split(strings.TrimSpace(string(data)), "\n") {
			r, _ := filepath.Rel(hooksDir, l)
			calls = append(calls, r)
		}
		if strings.Join(calls, ",") != strings.Join(want, ",") {
			report("init-config-once-in-order", "hook.(*Manager).Init", fmt.Sprintf("--config was run for %v, want each of %v once in this order", calls, want))
		}
	}
	// a hook whose --config run fails, or prints something that is no valid configuration, makes
	// Init fail with an error naming it - whatever it printed to stdout or stderr before
	for _, bad := range []struct{ name, body string }{
		{"exit 3 silently", "exit 3\n"},
		{"valid config on stdout, then exit 3, nothing on stderr", "echo '{\"configVersion\":\"v1\",\"onStartup\":10}'\nexit 3\n"},
		{"valid config on stdout, message on stderr, exit 1", "echo 'configVersion: v1'\necho 'onStartup: 1'\necho oops >&2\nexit 1\n"},
		{"exit 0 with an invalid configuration", "echo 'configVersion: v1'\necho 'onStartup: soon'\n"},
		{"exit 0 with an unknown field", "echo 'configVersion: v1'\necho 'onStartup: 1'\necho 'surprise: true'\n"},
	} {
		evaluated++
		hooksDir := t.TempDir()
		os.WriteFile(filepath.Join(hooksDir, "good.sh"), []byte("#!/usr/bin/env bash\necho 'configVersion: v1'\necho 'onStartup: 1'\n"), 0o755)
		os.WriteFile(filepath.Join(hooksDir, "zbad.sh"), []byte("#!/usr/bin/env bash\n"+bad.body), 0o755)
		hm := newHookManager(t, hooksDir)
		err := hm.Init()
		if err == nil || !strings.Contains(err.Error(), "zbad.sh") {
			report("init-failing-config-not-reported", "hook.(*Manager).loadHook", fmt.Sprintf("hook zbad.sh (%s): Init error = %v, want an error naming zbad.sh", bad.name, err))
		}
	}
	fmt.Printf("CONF-STATS evaluated=%d scope=3 hook trees with directory/file name-prefix collisions (real scripts, --config logged) + five hooks whose --config run fails or prints an invalid configuration (with and without output on stdout / stderr)\n", evaluated)
}
