package object_patch

// Bounded conformance of the patch file handling: JSON and YAML renderings of the same document
// streams go through the real ParseOperations; operation lists go through the real
// ExecuteOperations against a fake cluster (injected by /verif with `go test -overlay`; not part
// of the repository).

import (
	"time"
	"context"
	"encoding/json"
	"fmt"
	"reflect"
	"strings"
	"testing"

	"github.com/deckhouse/deckhouse/pkg/log"
	metav1 "k8s.io/apimachinery/pkg/apis/meta/v1"
	"sigs.k8s.io/yaml"

	"github.com/flant/kube-client/fake"
)

type vcDoc struct {
	name  string
	valid bool
	json  string
}

func vcCM(name, val string) string {
	return fmt.Sprintf(`{"apiVersion":"v1","kind":"ConfigMap","metadata":{"name":%q,"namespace":"default"},"data":{"k":%q}}`, name, val)
}

func TestVerifConfPatchFile(t *testing.T) {
	evaluated := 0
	report := func(c, fn, detail string) {
		fmt.Printf("CONF-FAIL case=%s fn=%s detail=%s\n", c, fn, detail)
	}
	docs := []vcDoc{
		{"create-a", true, `{"operation":"Create","object":` + vcCM("a", "1") + `}`},
		{"createorupdate-a", true, `{"operation":"CreateOrUpdate","object":` + vcCM("a", "2") + `}`},
		{"createifnotexists-b", true, `{"operation":"CreateIfNotExists","object":` + vcCM("b", "1") + `}`},
		{"delete-a", true, `{"operation":"Delete","apiVersion":"v1","kind":"ConfigMap","namespace":"default","name":"a"}`},
		{"deletebg-b", true, `{"operation":"DeleteInBackground","apiVersion":"v1","kind":"ConfigMap","namespace":"default","name":"b"}`},
		{"merge-a", true, `{"operation":"MergePatch","apiVersion":"v1","kind":"ConfigMap","namespace":"default","name":"a","mergePatch":{"data":{"k":"m"}},"ignoreMissingObject":true}`},
		{"jsonpatch-a", true, `{"operation":"JSONPatch","apiVersion":"v1","kind":"ConfigMap","namespace":"default","name":"a","jsonPatch":[{"op":"replace","path":"/data/k","value":"j"}],"ignoreMissingObject":true}`},
		{"jq-a", true, `{"operation":"JQPatch","apiVersion":"v1","kind":"ConfigMap","namespace":"default","name":"a","jqFilter":".data.k=\"q\"","ignoreMissingObject":true}`},
		{"bad-operation", false, `{"operation":"Explode","object":` + vcCM("x", "1") + `}`},
		{"create-without-object", false, `{"operation":"Create"}`},
		{"delete-without-name", false, `{"operation":"Delete","apiVersion":"v1","kind":"ConfigMap"}`},
		{"unknown-field-is-ignored", true, `{"operation":"Create","object":` + vcCM("y", "1") + `,"surprise":true}`},
	}
	toYAML := func(js string) string {
		b, err := yaml.JSONToYAML([]byte(js))
		if err != nil {
			t.Fatalf("yaml: %v", err)
		}
		return string(b)
	}
	// every stream of 1..3 documents
	var streams [][]int
	for a := range docs {
		streams = append(streams, []int{a})
		for b := range docs {
			streams = append(streams, []int{a, b})
		}
	}
	for a := 0; a < len(docs); a += 3 {
		for b := range docs {
			for c := 1; c < len(docs); c += 4 {
				streams = append(streams, []int{a, b, c})
			}
		}
	}
	describe := func(s []int) string {
		var n []string
		for _, i := range s {
			n = append(n, docs[i].name)
		}
		return strings.Join(n, " | ")
	}
	for _, s := range streams {
		evaluated++
		var js, ys []string
		allValid := true
		for _, i := range s {
			js = append(js, docs[i].json)
			ys = append(ys, toYAML(docs[i].json))
			allValid = allValid && docs[i].valid
		}
		opsJ, errJ := ParseOperations([]byte(strings.Join(js, "\n")))
		opsY, errY := ParseOperations([]byte(strings.Join(ys, "---\n")))
		if (errJ == nil) != allValid {
			report("patch-validated-as-a-whole", "kube/object_patch.ParseOperations", fmt.Sprintf("JSON stream [%s]: error=%v, all documents valid=%v", describe(s), errJ, allValid))
		}
		if (errY == nil) != allValid {
			report("patch-validated-as-a-whole", "kube/object_patch.ParseOperations", fmt.Sprintf("YAML stream [%s]: error=%v, all documents valid=%v", describe(s), errY, allValid))
		}
		if errJ == nil && errY == nil {
			if len(opsJ) != len(s) || len(opsY) != len(s) {
				report("patch-operation-count", "kube/object_patch.ParseOperations", fmt.Sprintf("stream [%s]: %d / %d operations from JSON / YAML, %d documents", describe(s), len(opsJ), len(opsY), len(s)))
				continue
			}
			for i := range opsJ {
				dj, _ := json.Marshal(fmt.Sprintf("%#v", opsJ[i]))
				dy, _ := json.Marshal(fmt.Sprintf("%#v", opsY[i]))
				if opsJ[i].Description() != opsY[i].Description() || !reflect.DeepEqual(vcNormalize(opsJ[i]), vcNormalize(opsY[i])) {
					report("patch-json-yaml-differ", "kube/object_patch.ParseOperations", fmt.Sprintf("stream [%s] document %d: JSON gives %s, YAML gives %s", describe(s), i, dj, dy))
				}
				single, err := ParseOperations([]byte(docs[s[i]].json))
				if err != nil || len(single) != 1 || single[0].Description() != opsJ[i].Description() {
					report("patch-order", "kube/object_patch.ParseOperations", fmt.Sprintf("stream [%s]: operation %d is %q, document %d alone gives %v", describe(s), i, opsJ[i].Description(), i, single))
				}
			}
		}
	}
	// execution: once each, in order, all applied even if one fails
	type plan struct {
		ops  []int
		want map[string]string // config map name -> data.k ("" = absent)
		fail bool
	}
	plans := []plan{
		{[]int{0, 5, 6}, map[string]string{"a": "j"}, false},        // create, merge, jsonpatch: the last one wins
		{[]int{0, 6, 5}, map[string]string{"a": "m"}, false},        // the other order
		{[]int{0, 1, 3}, map[string]string{"a": ""}, false},         // create, update, delete
		{[]int{3, 0}, map[string]string{"a": "1"}, false},           // deleting a missing object is not an error, the create is applied
		{[]int{0, 0, 2}, map[string]string{"a": "1", "b": "1"}, true}, // second create fails (exists), the third is applied
		{[]int{2, 2, 4, 2}, map[string]string{"b": "1"}, false},
		{[]int{0, 7}, map[string]string{"a": "q"}, false},
	}
	for pi, p := range plans {
		evaluated++
		cluster := fake.NewFakeCluster(fake.ClusterVersionV119)
		cluster.CreateNs("default")
		patcher := NewObjectPatcher(cluster.Client, log.NewNop())
		var ops []string
		for _, i := range p.ops {
			ops = append(ops, docs[i].json)
		}
		parsed, err := ParseOperations([]byte(strings.Join(ops, "\n")))
		if err != nil {
			report("patch-plan-rejected", "kube/object_patch.ParseOperations", fmt.Sprintf("plan %d: %v", pi, err))
			continue
		}
		err = patcher.ExecuteOperations(parsed)
		if (err != nil) != p.fail {
			report("patch-errors-aggregated", "kube/object_patch.(*ObjectPatcher).ExecuteOperations", fmt.Sprintf("plan %d [%s]: error=%v, a failing operation expected=%v", pi, describe(p.ops), err, p.fail))
		}
		for name, want := range p.want {
			gvr := cluster.MustFindGVR("v1", "ConfigMap")
			obj, gerr := cluster.Client.Dynamic().Resource(*gvr).Namespace("default").Get(context.TODO(), name, metav1.GetOptions{})
			got := ""
			if gerr == nil && obj != nil {
				if data, ok := obj.Object["data"].(map[string]interface{}); ok {
					got = fmt.Sprint(data["k"])
				}
			}
			if got != want {
				report("patch-applied-once-in-order", "kube/object_patch.(*ObjectPatcher).ExecuteOperations", fmt.Sprintf("plan %d [%s]: config map %s has k=%q, want %q", pi, describe(p.ops), name, got, want))
			}
		}
	}
	// every delete variant removes the object it addresses (name and namespace differ)
	for _, variant := range []string{"Delete", "DeleteInBackground", "DeleteNonCascading"} {
		evaluated++
		cluster := fake.NewFakeCluster(fake.ClusterVersionV119)
		cluster.CreateNs("default")
		patcher := NewObjectPatcher(cluster.Client, log.NewNop())
		stream := docs[0].json + "\n" + fmt.Sprintf(`{"operation":"%s","apiVersion":"v1","kind":"ConfigMap","namespace":"default","name":"a"}`, variant)
		parsed, err := ParseOperations([]byte(stream))
		if err != nil {
			report("patch-plan-rejected", "kube/object_patch.ParseOperations", fmt.Sprintf("create + %s: %v", variant, err))
			continue
		}
		if err := patcher.ExecuteOperations(parsed); err != nil {
			report("patch-errors-aggregated", "kube/object_patch.(*ObjectPatcher).ExecuteOperations", fmt.Sprintf("create + %s: %v", variant, err))
		}
		gvr := cluster.MustFindGVR("v1", "ConfigMap")
		// background / non-cascading deletes are asynchronous in the fake cluster too: poll briefly
		gone := false
		for i := 0; i < 40 && !gone; i++ {
			if _, gerr := cluster.Client.Dynamic().Resource(*gvr).Namespace("default").Get(context.TODO(), "a", metav1.GetOptions{}); gerr != nil {
				gone = true
			} else {
				time.Sleep(50 * time.Millisecond)
			}
		}
		if !gone {
			report("patch-delete-variant-misses-object", "kube/object_patch.NewFromOperationSpec", fmt.Sprintf("create default/a, then %s of default/a: the config map is still there", variant))
		}
	}
	fmt.Printf("CONF-STATS evaluated=%d scope=12 documents (9 valid: 3 create variants, 2 deletes, merge/JSON/jq patch, one with an unknown field; 3 invalid), every stream of 1-2 documents and a third of the streams of 3, rendered as JSON stream and as YAML stream; 7 execution plans and the three delete variants against a fake cluster\n", evaluated)
}

// vcNormalize: numbers decoded from JSON are float64, from YAML int: compare through JSON.
func vcNormalize(v interface{}) interface{} {
	b, err := json.Marshal(fmt.Sprintf("%+v", v))
	if err != nil {
		return fmt.Sprint(v)
	}
	return string(b)
}
