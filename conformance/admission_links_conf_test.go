package hook

// Bounded replay of admission routing: real hook scripts with kubernetesValidating /
// kubernetesMutating bindings are loaded by the real Manager and events are routed through
// Manager.HandleAdmissionEvent (injected by /verif with `go test -overlay`; not part of the
// repository).

import (
	"fmt"
	"os"
	"path/filepath"
	"strings"
	"testing"

	v1 "k8s.io/api/admission/v1"

	"github.com/flant/shell-operator/pkg/hook/controller"
	htypes "github.com/flant/shell-operator/pkg/hook/types"
	"github.com/flant/shell-operator/pkg/webhook/admission"
)

func vcAdmissionScript(validating, mutating []string) string {
	var b strings.Builder
	b.WriteString("#!/usr/bin/env bash\nif [[ $1 == \"--config\" ]] ; then\ncat <<CONFIG\nconfigVersion: v1\n")
	rules := "  rules:\n  - operations: [\"CREATE\"]\n    apiGroups: [\"apps\"]\n    apiVersions: [\"v1\"]\n    resources: [\"deployments\"]\n"
	if len(validating) > 0 {
		b.WriteString("kubernetesValidating:\n")
		for _, n := range validating {
			b.WriteString("- name: " + n + "\n" + rules)
		}
	}
	if len(mutating) > 0 {
		b.WriteString("kubernetesMutating:\n")
		for _, n := range mutating {
			b.WriteString("- name: " + n + "\n" + rules)
		}
	}
	b.WriteString("CONFIG\nfi\n")
	return b.String()
}

type vcRouted struct {
	hook, binding string
	bindingType   htypes.BindingType
}

func TestVerifConfAdmissionLinks(t *testing.T) {
	evaluated := 0
	report := func(c, fn, detail string) {
		fmt.Printf("CONF-FAIL case=%s fn=%s detail=%s\n", c, fn, detail)
	}
	type hookDef struct {
		file                 string
		validating, mutating []string
	}
	scenarios := []struct {
		name  string
		hooks []hookDef
	}{
		{"distinct", []hookDef{{"a.sh", []string{"one.example.com", "two.example.com"}, []string{"three.example.com"}}, {"b.sh", []string{"four.example.com"}, nil}}},
		{"sanitized-collision", []hookDef{{"a.sh", []string{"a.b-c.example.com", "a-b.c.example.com"}, []string{"m.b-c.example.com", "m-b.c.example.com"}}}},
	}
	for _, sc := range scenarios {
		hooksDir := t.TempDir()
		for _, h := range sc.hooks {
			os.WriteFile(filepath.Join(hooksDir, h.file), []byte(vcAdmissionScript(h.validating, h.mutating)), 0o755)
		}
		hm := newHookManager(t, hooksDir)
		if err := hm.Init(); err != nil {
			// a configuration that is rejected cannot misroute
			evaluated++
			continue
		}
		for _, name := range hm.GetHookNames() {
			hm.GetHook(name).HookController.EnableAdmissionBindings()
		}
		// every declared binding: a review sent to the path registered for it must be handed to it
		for _, h := range sc.hooks {
			check := func(binding string, cfgId string, webhookId string, bt htypes.BindingType) {
				evaluated++
				req := &v1.AdmissionRequest{UID: "u"}
				var got []vcRouted
				hm.HandleAdmissionEvent(admission.Event{ConfigurationId: cfgId, WebhookId: webhookId, Request: req}, func(hk *Hook, info controller.BindingExecutionInfo) {
					r := vcRouted{hook: hk.Name, binding: info.Binding}
					if len(info.BindingContext) == 1 {
						r.bindingType = info.BindingContext[0].Metadata.BindingType
						if info.BindingContext[0].AdmissionReview == nil || info.BindingContext[0].AdmissionReview.Request != req {
							report("admission-request-not-relayed", "hook/controller.(*AdmissionBindingsController).HandleEvent", fmt.Sprintf("scenario %s binding %s: the context does not carry the request", sc.name, binding))
						}
					}
					if info.AllowFailure {
						report("admission-allow-failure", "hook/controller.(*AdmissionBindingsController).HandleEvent", fmt.Sprintf("scenario %s binding %s: AllowFailure is set", sc.name, binding))
					}
					got = append(got, r)
				})
				// a hook with validating and mutating bindings is offered the event once per kind; the
				// operator keeps one task, so duplicates are harmless as long as all agree
				bad := len(got) == 0
				for _, r := range got {
					if r.hook != h.file || r.binding != binding || r.bindingType != bt {
						bad = true
					}
				}
				if bad {
					c := "admission-misrouted"
					if sc.name == "sanitized-collision" {
						c = "admission-webhook-id-collision"
					}
					fn := "hook/controller.(*AdmissionBindingsController).EnableValidatingBindings"
					if bt == htypes.KubernetesMutating {
						fn = "hook/controller.(*AdmissionBindingsController).EnableMutatingBindings"
					}
					report(c, fn, fmt.Sprintf("scenario %s: review for path /%s/%s registered by hook %s binding %s (%s) was handed to %v", sc.name, cfgId, webhookId, h.file, binding, bt, got))
				}
			}
			cfg := hm.GetHook(h.file).GetConfig()
			for _, vc := range cfg.KubernetesValidating {
				check(vc.BindingName, vc.Webhook.Metadata.ConfigurationId, vc.Webhook.Metadata.WebhookId, htypes.KubernetesValidating)
			}
			for _, mc := range cfg.KubernetesMutating {
				check(mc.BindingName, mc.Webhook.Metadata.ConfigurationId, mc.Webhook.Metadata.WebhookId, htypes.KubernetesMutating)
			}
		}
		// unknown paths reach nobody
		for _, ev := range []admission.Event{{ConfigurationId: "hooks", WebhookId: "nobody-example-com"}, {ConfigurationId: "other", WebhookId: "one-example-com"}, {}} {
			evaluated++
			n := 0
			hm.HandleAdmissionEvent(ev, func(_ *Hook, _ controller.BindingExecutionInfo) { n++ })
			if n != 0 {
				report("admission-unknown-path-routed", "hook/controller.(*AdmissionBindingsController).CanHandleEvent", fmt.Sprintf("scenario %s: event %+v reached %d hooks", sc.name, ev, n))
			}
		}
	}
	fmt.Printf("CONF-STATS evaluated=%d scope=real hook scripts loaded by Manager.Init: 2 hooks with 4 validating + 1 mutating bindings (distinct ids), 1 hook with two binding names that sanitize to one webhook id; every registered path and 3 unknown paths routed through Manager.HandleAdmissionEvent\n", evaluated)
}
