package metricstorage

// Bounded conformance of hook metric batches on the real MetricStorage (injected by /verif with
// `go test -overlay`; not part of the repository).

import (
	"context"
	"fmt"
	"strings"
	"testing"

	"github.com/deckhouse/deckhouse/pkg/log"

	"github.com/flant/shell-operator/pkg/metric_storage/operation"
)

func vcGather(t *testing.T, m *MetricStorage) map[string]float64 {
	out := map[string]float64{}
	fams, err := m.Gatherer.Gather()
	if err != nil {
		t.Fatalf("gather: %v", err)
	}
	for _, f := range fams {
		for _, mm := range f.GetMetric() {
			var ls []string
			for _, l := range mm.GetLabel() {
				ls = append(ls, l.GetName()+"="+l.GetValue())
			}
			key := f.GetName() + "{" + strings.Join(ls, ",") + "}"
			switch {
			case mm.Counter != nil:
				out[key] = mm.Counter.GetValue()
			case mm.Gauge != nil:
				out[key] = mm.Gauge.GetValue()
			}
		}
	}
	return out
}

func TestVerifConfMetrics(t *testing.T) {
	evaluated := 0
	report := func(c, fn, detail string) {
		fmt.Printf("CONF-FAIL case=%s fn=%s detail=%s\n", c, fn, detail)
	}
	batch := func(s string) []operation.MetricOperation {
		ops, err := operation.MetricOperationsFromBytes([]byte(s))
		if err != nil {
			t.Fatalf("parse %s: %v", s, err)
		}
		return ops
	}
	newStorage := func() *MetricStorage {
		return NewMetricStorage(context.Background(), "p_", true, log.NewNop())
	}
	lbl := map[string]string{"hook": "h"}

	// grouped operations are applied exactly once each, with the values given
	for _, v := range []float64{1, 2, 5} {
		for _, form := range []string{"shortcut", "action"} {
			evaluated++
			m := newStorage()
			var doc string
			if form == "shortcut" {
				doc = fmt.Sprintf(`{"group":"g1","name":"m_total","add":%v,"labels":{"a":"1"}}`, v)
			} else {
				doc = fmt.Sprintf(`{"group":"g1","name":"m_total","action":"add","value":%v,"labels":{"a":"1"}}`, v)
			}
			if err := m.SendBatch(batch(doc), lbl); err != nil {
				t.Fatalf("SendBatch: %v", err)
			}
			got := vcGather(t, m)["m_total{a=1,hook=h}"]
			if got != v {
				report("metrics-grouped-add-once-"+form, "metric_storage.(*MetricStorage).applyGroupOperations", fmt.Sprintf("batch %s: counter is %v, want %v", doc, got, v))
			}
		}
	}
	// fractional value of a grouped counter
	{
		evaluated++
		m := newStorage()
		doc := `{"group":"g1","name":"frac_total","action":"add","value":0.5,"labels":{"a":"1"}}`
		m.SendBatch(batch(doc), lbl)
		if got := vcGather(t, m)["frac_total{a=1,hook=h}"]; got != 0.5 {
			report("metrics-grouped-counter-fraction", "metric.(*ConstCounterCollector).Add", fmt.Sprintf("batch %s: counter is %v, want 0.5", doc, got))
		}
	}
	// a series set under group g2 with the labels of a g1 series; then g2 expires
	{
		evaluated++
		m := newStorage()
		m.SendBatch(batch(`{"group":"g1","name":"gg","action":"set","value":3,"labels":{"a":"1"}}`), lbl)
		m.SendBatch(batch(`{"group":"g2","name":"gg","action":"set","value":7,"labels":{"a":"1"}}`), lbl)
		m.SendBatch(batch(`{"group":"g2","action":"expire"}`), lbl)
		if got, ok := vcGather(t, m)["gg{a=1,hook=h}"]; !ok || got != 3 {
			report("metrics-group-not-in-key", "metric.(*ConstGaugeCollector).Set", fmt.Sprintf("series of g1 after set by g2 and expire of g2: present=%v value=%v, want 3", ok, got))
		}
	}
	// an invalid operation anywhere in the batch: nothing is applied
	for _, bad := range []string{`{"name":"x","action":"observe","value":1}`, `{"group":"g","name":"","action":"set","value":1}`, `{"name":"x","action":"bogus","value":1}`, `{"name":"y","set":1,"add":2}`} {
		for _, pos := range []int{0, 1} {
			evaluated++
			m := newStorage()
			good := `{"name":"ok_total","action":"add","value":1}` + "\n" + `{"group":"g1","name":"okg","action":"set","value":2}`
			doc := good + "\n" + bad
			if pos == 0 {
				doc = bad + "\n" + good
			}
			err := m.SendBatch(batch(doc), lbl)
			if err == nil {
				report("metrics-invalid-accepted", "metric_storage.(*MetricStorage).SendBatch", "batch accepted: "+doc)
			}
			if got := vcGather(t, m); len(got) != 0 {
				report("metrics-invalid-partially-applied", "metric_storage.(*MetricStorage).SendBatch", fmt.Sprintf("batch %q rejected but applied %v", doc, got))
			}
		}
	}
	// replacing a group keeps other groups and ungrouped series
	{
		evaluated++
		m := newStorage()
		m.SendBatch(batch(`{"name":"plain_total","action":"add","value":4}`+"\n"+`{"group":"g1","name":"a1","action":"set","value":1,"labels":{"x":"1"}}`+"\n"+`{"group":"g2","name":"a2","action":"set","value":2,"labels":{"x":"1"}}`), lbl)
		m.SendBatch(batch(`{"group":"g1","name":"a1","action":"set","value":9,"labels":{"x":"2"}}`), lbl)
		got := vcGather(t, m)
		want := map[string]float64{"plain_total{hook=h}": 4, "a1{hook=h,x=2}": 9, "a2{hook=h,x=1}": 2}
		if fmt.Sprint(got) != fmt.Sprint(want) {
			report("metrics-group-replace", "metric_storage.(*MetricStorage).applyGroupOperations", fmt.Sprintf("got %v want %v", got, want))
		}
	}
	// the label-name set of a metric grows while series of several groups are stored: every
	// stored series survives with its value, its group and its label values (new labels empty)
	for _, kind := range []string{"set", "add"} {
		evaluated++
		m := newStorage()
		name := map[string]string{"set": "relabel_g", "add": "relabel_total"}[kind]
		op := func(group string, v int, labels string) string {
			return fmt.Sprintf(`{"group":"%s","name":"%s","action":"%s","value":%d,"labels":{%s}}`, group, name, kind, v, labels)
		}
		m.SendBatch(batch(op("g1", 1, `"a":"1"`)+"\n"+op("g1", 2, `"a":"2"`)), lbl)
		m.SendBatch(batch(op("g2", 3, `"a":"3"`)), lbl)
		m.SendBatch(batch(op("g3", 5, `"a":"5","b":"x"`)), lbl) // grows the label set
		got := vcGather(t, m)
		want := map[string]float64{name + "{a=1,b=,hook=h}": 1, name + "{a=2,b=,hook=h}": 2, name + "{a=3,b=,hook=h}": 3, name + "{a=5,b=x,hook=h}": 5}
		if fmt.Sprint(got) != fmt.Sprint(want) {
			report("metrics-relabel-keeps-series", "metric.(*ConstGaugeCollector).UpdateLabels", fmt.Sprintf("%s: after the label set grew: got %v want %v", kind, got, want))
		}
		// and the groups are still what they were: replacing g1 removes exactly its two series
		m.SendBatch(batch(op("g1", 8, `"a":"8"`)), lbl)
		got = vcGather(t, m)
		want = map[string]float64{name + "{a=8,b=,hook=h}": 8, name + "{a=3,b=,hook=h}": 3, name + "{a=5,b=x,hook=h}": 5}
		if fmt.Sprint(got) != fmt.Sprint(want) {
			report("metrics-relabel-keeps-groups", "metric.(*ConstGaugeCollector).UpdateLabels", fmt.Sprintf("%s: group g1 replaced after the label set grew: got %v want %v", kind, got, want))
		}
	}
	// a group that reports other metric names than before: the old names disappear
	{
		evaluated++
		m := newStorage()
		m.SendBatch(batch(`{"group":"g1","name":"old_name","action":"set","value":1,"labels":{"a":"1"}}`+"\n"+`{"group":"g2","name":"old_name","action":"set","value":2,"labels":{"a":"2"}}`), lbl)
		m.SendBatch(batch(`{"group":"g1","name":"new_name","action":"set","value":3,"labels":{"a":"1"}}`), lbl)
		got := vcGather(t, m)
		want := map[string]float64{"old_name{a=2,hook=h}": 2, "new_name{a=1,hook=h}": 3}
		if fmt.Sprint(got) != fmt.Sprint(want) {
			report("metrics-group-replace-other-names", "metric_storage.(*MetricStorage).applyGroupOperations", fmt.Sprintf("group g1 reported old_name, then only new_name: got %v want %v", got, want))
		}
	}
	// label tuples that concatenate to the same bytes are different series
	{
		evaluated++
		m := newStorage()
		m.SendBatch(batch(`{"group":"g1","name":"shape","action":"set","value":1,"labels":{"ns":"x"}}`+"\n"+`{"group":"g1","name":"shape","action":"set","value":2,"labels":{"pod":"x"}}`+"\n"+`{"group":"g1","name":"shape2","action":"set","value":3,"labels":{"a":"1","b":"23"}}`+"\n"+`{"group":"g1","name":"shape2","action":"set","value":4,"labels":{"a":"12","b":"3"}}`), lbl)
		got := vcGather(t, m)
		want := map[string]float64{"shape{hook=h,ns=x,pod=}": 1, "shape{hook=h,ns=,pod=x}": 2, "shape2{a=1,b=23,hook=h}": 3, "shape2{a=12,b=3,hook=h}": 4}
		if fmt.Sprint(got) != fmt.Sprint(want) {
			report("metrics-label-tuples-collide", "metric.HashLabelValues", fmt.Sprintf("got %v want %v", got, want))
		}
	}
	// validation predicate: exhaustive over the field lattice of one operation
	{
		f := 1.0
		for _, action := range []string{"", "set", "add", "observe", "expire", "bogus"} {
			for _, group := range []string{"", "g"} {
				for _, name := range []string{"", "n"} {
					for mask := 0; mask < 16; mask++ {
						evaluated++
						op := operation.MetricOperation{Name: name, Group: group, Action: action}
						if mask&1 != 0 {
							op.Value = &f
						}
						if mask&2 != 0 {
							op.Buckets = []float64{1}
						}
						if mask&4 != 0 {
							op.Set = &f
						}
						if mask&8 != 0 {
							op.Add = &f
						}
						okAction := false
						if group == "" {
							okAction = action == "set" || action == "add" || action == "observe"
						} else {
							okAction = action == "expire" || action == "set" || action == "add"
						}
						valid := action != "" && okAction && !(name == "" && (group == "" || action != "expire")) &&
							!((action == "set" || action == "add" || action == "observe") && op.Value == nil) &&
							!(action == "observe" && op.Buckets == nil) && !(op.Set != nil && op.Add != nil)
						got := operation.ValidateMetricOperation(op) == nil
						if got != valid {
							report("metrics-validation-predicate", "metric_storage/operation.ValidateMetricOperation", fmt.Sprintf("op %s: accepted=%v, documented validity=%v", op, got, valid))
						}
						// a batch is rejected iff one of its operations is invalid
						good := operation.MetricOperation{Name: "n", Action: "set", Value: &f}
						gotBatch := operation.ValidateOperations([]operation.MetricOperation{good, op, good}) == nil
						if gotBatch != valid {
							report("metrics-batch-validation", "metric_storage/operation.ValidateOperations", fmt.Sprintf("batch [good, %s, good]: accepted=%v want %v", op, gotBatch, valid))
						}
					}
				}
			}
		}
	}
	fmt.Printf("CONF-STATS evaluated=%d scope=hand-picked metric batches on the real MetricStorage (grouped add/set, replace, expire, invalid batches, label set growing under stored series of three groups, label tuples with equal concatenation) + exhaustive field lattice of one operation (6 actions x group x name x value/buckets/set/add presence) for the validation predicate\n", evaluated)
}
