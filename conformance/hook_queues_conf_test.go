package shell_operator

// Bounded replay of the queues named by hook bindings: real hook manager, real queue set. Existing
// queues (main) keep their identity - no second worker for a name -, every named queue exists once,
// and all of them stop when the set is stopped (injected by /verif with `go test -overlay`).

import (
	"context"
	"fmt"
	"os"
	"path/filepath"
	"sort"
	"testing"
	"time"

	"github.com/deckhouse/deckhouse/pkg/log"

	"github.com/flant/kube-client/fake"
	metricstorage "github.com/flant/shell-operator/pkg/metric_storage"
	"github.com/flant/shell-operator/pkg/task"
	"github.com/flant/shell-operator/pkg/task/queue"
)

func vcQueuesHook(body string) string {
	s := "#!/bin/bash\nif [[ \"$1\" == \"--config\" ]]; then\n"
	for _, l := range []string{"configVersion: v1"} {
		s += "  echo '" + l + "'\n"
	}
	s += body + "  exit 0\nfi\nexit 0\n"
	return s
}

func TestVerifConfHookQueues(t *testing.T) {
	evaluated := 0
	report := func(c, detail string) {
		fmt.Printf("CONF-FAIL case=%s fn=shell-operator.(*ShellOperator).initAndStartHookQueues detail=%s\n", c, detail)
	}
	hooksDir, tmpDir := t.TempDir(), t.TempDir()
	echo := func(lines ...string) string {
		s := ""
		for _, l := range lines {
			s += "  echo '" + l + "'\n"
		}
		return s
	}
	os.WriteFile(filepath.Join(hooksDir, "a.sh"), []byte(vcQueuesHook(echo("schedule:", "- name: on-main", "  crontab: \"* * * * *\"", "- name: on-q1", "  crontab: \"* * * * *\"", "  queue: q1"))), 0o755)
	os.WriteFile(filepath.Join(hooksDir, "b.sh"), []byte(vcQueuesHook(echo("kubernetes:", "- name: cm-main", "  apiVersion: v1", "  kind: ConfigMap", "- name: cm-q2", "  apiVersion: v1", "  kind: ConfigMap", "  queue: q2", "- name: cm-q1", "  apiVersion: v1", "  kind: Secret", "  queue: q1"))), 0o755)

	ctx, cancel := context.WithCancel(context.Background())
	defer cancel()
	fc := fake.NewFakeCluster(fake.ClusterVersionV121)
	op := NewShellOperator(ctx, WithLogger(log.NewNop()))
	op.MetricStorage = metricstorage.NewMetricStorage(ctx, "vcq_", true, log.NewNop())
	op.HookMetricStorage = metricstorage.NewMetricStorage(ctx, "vcqh_", true, log.NewNop())
	op.KubeClient = fc.Client
	op.SetupEventManagers()
	op.setupHookManagers(hooksDir, tmpDir)
	if err := op.initHookManager(); err != nil {
		t.Fatal(err)
	}
	op.bootstrapMainQueue(op.TaskQueues)
	mainBefore := op.TaskQueues.GetMain()
	nBefore := mainBefore.Length()

	snapshot := func() map[string]*queue.TaskQueue {
		m := map[string]*queue.TaskQueue{}
		op.TaskQueues.Iterate(func(q *queue.TaskQueue) { m[q.Name] = q })
		return m
	}
	for round := 1; round <= 2; round++ {
		evaluated++
		prev := snapshot()
		op.initAndStartHookQueues()
		now := snapshot()
		if now["main"] != mainBefore {
			report("hook-queues-main-replaced", fmt.Sprintf("round %d: the main queue holding the %d startup tasks was replaced by another queue object: its worker and tasks are orphaned and a second worker serves the name main", round, nBefore))
		}
		for name, q := range prev {
			if now[name] != q {
				report("hook-queues-existing-replaced", fmt.Sprintf("round %d: queue %q existed and was replaced", round, name))
			}
		}
		var names []string
		for n := range now {
			names = append(names, n)
		}
		sort.Strings(names)
		if fmt.Sprint(names) != "[main q1 q2]" {
			report("hook-queues-names", fmt.Sprintf("round %d: queues %v, the bindings name main, q1 and q2", round, names))
		}
	}
	// every queue stops when the set is stopped
	evaluated++
	op.TaskQueues.StartMain()
	time.Sleep(300 * time.Millisecond)
	op.TaskQueues.Stop()
	deadline := time.Now().Add(4 * time.Second)
	for {
		var running []string
		op.TaskQueues.Iterate(func(q *queue.TaskQueue) {
			if q.GetStatus() != "stop" {
				running = append(running, q.Name+"="+q.GetStatus())
			}
		})
		if len(running) == 0 {
			break
		}
		if time.Now().After(deadline) {
			report("hook-queues-not-stopped-with-the-set", fmt.Sprintf("4 s after TaskQueueSet.Stop these queues have not stopped: %v", running))
			break
		}
		time.Sleep(100 * time.Millisecond)
	}
	// a queue created after the stop request (shutdown racing with start-up) must not run anything
	{
		evaluated++
		ran := 0
		op.TaskQueues.NewNamedQueue("late", func(t task.Task) queue.TaskResult {
			ran++
			return queue.TaskResult{Status: "Success"}
		})
		late := op.TaskQueues.GetByName("late")
		late.AddLast(task.NewTask("HookRun"))
		late.AddLast(task.NewTask("HookRun"))
		late.Start()
		time.Sleep(700 * time.Millisecond)
		if ran > 0 || late.GetStatus() != "stop" {
			report("hook-queues-late-queue-runs-after-stop", fmt.Sprintf("a queue created and started after TaskQueueSet.Stop executed %d task(s), status %q", ran, late.GetStatus()))
		}
	}
	fmt.Printf("CONF-STATS evaluated=%d scope=two hooks with schedule and kubernetes bindings on main, q1 (shared by two hooks) and q2: initAndStartHookQueues twice after bootstrapMainQueue: main and every existing queue keep their identity, exactly the named queues exist; then TaskQueueSet.Stop: every queue reaches status stop, and a queue created afterwards runs nothing\n", evaluated)
}
