package kubeeventsmanager

// Bounded (and timing dependent) replay of the two hand-over points between the
// Synchronization view and later Events, on the real resourceInformer under contention: many
// goroutines deliver changes while the view is taken / the callback is enabled. A failure is a
// real loss; the absence of failures in these trials proves nothing (the contracts do).
// (injected by /verif with `go test -overlay`; not part of the repository)

import (
	"fmt"
	"os"
	"sync"
	"sync/atomic"
	"testing"
	"time"

	"github.com/deckhouse/deckhouse/pkg/log"
	"k8s.io/apimachinery/pkg/apis/meta/v1/unstructured"

	kemtypes "github.com/flant/shell-operator/pkg/kube_events_manager/types"
	"github.com/flant/shell-operator/pkg/metric"
)

func vcRaceObj(name, data string) *unstructured.Unstructured {
	return &unstructured.Unstructured{Object: map[string]interface{}{
		"apiVersion": "v1", "kind": "ConfigMap",
		"metadata": map[string]interface{}{"name": name, "namespace": "default"},
		"data":     map[string]interface{}{"k": data},
	}}
}

func TestVerifConfInformerRaces(t *testing.T) {
	mstor := metric.NewStorageMock(t)
	mstor.HistogramObserveMock.Set(func(string, float64, map[string]string, []float64) {})
	mstor.GaugeSetMock.Set(func(string, float64, map[string]string) {})
	trials := 150
	if os.Getenv("VERIF_TIER") == "thorough" {
		trials = 1500
	}
	const per, workers = 300, 8
	newInformer := func(cb func(kemtypes.KubeEvent)) *resourceInformer {
		mc := &MonitorConfig{KeepFullObjectsInMemory: true}
		mc.WithEventTypes(nil)
		return newResourceInformer("default", "", &resourceInformerConfig{mstor: mstor, monitor: mc, logger: log.NewNop(), eventCb: cb})
	}
	hammer := func(ei *resourceInformer, wg *sync.WaitGroup, start chan struct{}) {
		for w := 0; w < workers; w++ {
			go func(w int) {
				defer wg.Done()
				<-start
				for i := 0; i < per; i++ {
					ei.handleWatchEvent(vcRaceObj(fmt.Sprint("o", w), fmt.Sprint(i)), kemtypes.WatchEventModified)
				}
			}(w)
		}
	}
	// 1. enabling the callback while changes arrive: afterwards nothing may sit in the buffer and
	//    every change must have been delivered
	stuck, stuckDetail := 0, ""
	for tr := 0; tr < trials; tr++ {
		var delivered int64
		ei := newInformer(func(kemtypes.KubeEvent) { atomic.AddInt64(&delivered, 1) })
		var wg sync.WaitGroup
		start := make(chan struct{})
		wg.Add(workers + 1)
		hammer(ei, &wg, start)
		go func() {
			defer wg.Done()
			<-start
			time.Sleep(time.Duration(tr%5) * time.Millisecond)
			ei.enableKubeEventCb()
		}()
		close(start)
		wg.Wait()
		if len(ei.eventBuf) > 0 || int(delivered) != per*workers {
			stuck++
			if stuckDetail == "" {
				stuckDetail = fmt.Sprintf("trial %d: %d of %d changes delivered, %d event(s) left in the buffer after the callback was enabled", tr, delivered, per*workers, len(ei.eventBuf))
			}
		}
	}
	if stuck > 0 {
		fmt.Printf("CONF-FAIL case=informer-event-parked-after-enable fn=kube_events_manager.(*resourceInformer).handleWatchEvent detail=%d of %d trials (8 goroutines x 300 changes, callback enabled meanwhile): %s\n", stuck, trials, stuckDetail)
	}
	// 2. taking the Synchronization view while changes arrive: every change must be in the view or
	//    among the buffered events
	lost, lostDetail := 0, ""
	for tr := 0; tr < trials; tr++ {
		ei := newInformer(func(kemtypes.KubeEvent) {})
		var wg sync.WaitGroup
		start := make(chan struct{})
		wg.Add(workers + 1)
		hammer(ei, &wg, start)
		var snap []kemtypes.ObjectAndFilterResult
		go func() {
			defer wg.Done()
			<-start
			time.Sleep(time.Duration(tr%5) * time.Millisecond)
			snap = ei.getCachedObjects()
		}()
		close(start)
		wg.Wait()
		val := func(o kemtypes.ObjectAndFilterResult) int {
			d, _, _ := unstructured.NestedString(o.Object.Object, "data", "k")
			v := 0
			fmt.Sscan(d, &v)
			return v
		}
		snapVal := map[string]int{}
		for _, o := range snap {
			snapVal[o.Metadata.ResourceId] = val(o)
		}
		got := map[string]map[int]bool{}
		for _, ev := range ei.eventBuf {
			for _, o := range ev.Objects {
				if got[o.Metadata.ResourceId] == nil {
					got[o.Metadata.ResourceId] = map[int]bool{}
				}
				got[o.Metadata.ResourceId][val(o)] = true
			}
		}
		bad := false
		for w := 0; w < workers && !bad; w++ {
			rid := fmt.Sprintf("default/ConfigMap/o%d", w)
			from := 0
			if v, ok := snapVal[rid]; ok {
				from = v + 1
			}
			for v := from; v < per; v++ {
				if !got[rid][v] {
					bad = true
					if lostDetail == "" {
						lostDetail = fmt.Sprintf("trial %d: %s is in the view with value %d, change %d is neither in the view nor among the buffered events", tr, rid, from-1, v)
					}
					break
				}
			}
		}
		if bad {
			lost++
		}
	}
	if lost > 0 {
		fmt.Printf("CONF-FAIL case=informer-event-lost-between-view-and-reset fn=kube_events_manager.(*resourceInformer).getCachedObjects detail=%d of %d trials (8 goroutines x 300 changes, view taken meanwhile): %s\n", lost, trials, lostDetail)
	}
	fmt.Printf("CONF-STATS evaluated=%d scope=timing dependent: %d trials each of (a) enableKubeEventCb and (b) getCachedObjects racing with 8 goroutines x 300 changes on the real resourceInformer; a miss is possible, a hit is a real loss\n", 2*trials, trials)
}
