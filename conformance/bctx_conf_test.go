package bindingcontext

// Bounded conformance of the binding context rendering (injected by /verif with `go test -overlay`).

import (
	"fmt"
	"sort"
	"strings"
	"testing"

	"k8s.io/apimachinery/pkg/apis/meta/v1/unstructured"

	htypes "github.com/flant/shell-operator/pkg/hook/types"
	kemtypes "github.com/flant/shell-operator/pkg/kube_events_manager/types"
)

func TestVerifConfBindingContext(t *testing.T) {
	evaluated := 0
	fails := map[string]bool{}
	report := func(c, fn, detail string) {
		if !fails[c] {
			fails[c] = true
			fmt.Printf("CONF-FAIL case=%s fn=%s detail=%s\n", c, fn, detail)
		}
	}
	keys := func(m map[string]interface{}) string {
		var ks []string
		for k := range m {
			ks = append(ks, k)
		}
		sort.Strings(ks)
		return strings.Join(ks, ",")
	}
	obj := &unstructured.Unstructured{Object: map[string]interface{}{"kind": "Pod", "metadata": map[string]interface{}{"name": "p"}}}
	types := []htypes.BindingType{htypes.OnStartup, htypes.Schedule, htypes.OnKubernetesEvent, htypes.KubernetesValidating, htypes.KubernetesMutating, htypes.KubernetesConversion}
	for _, bt := range types {
		for _, group := range []string{"", "g"} {
			for _, snaps := range []int{0, 1, 2} { // 0 none, 1 IncludeSnapshots, 2 IncludeAllSnapshots
				for _, kt := range []kemtypes.KubeEventType{"", kemtypes.TypeSynchronization, kemtypes.TypeEvent} {
					for _, nobj := range []int{0, 1} {
						for _, jq := range []string{"", ".x"} {
							for _, remove := range []bool{false, true} {
								evaluated++
								bc := BindingContext{Binding: "b", Type: kt}
								bc.Metadata.BindingType = bt
								bc.Metadata.Group = group
								bc.Metadata.JqFilter = jq
								if snaps == 1 {
									bc.Metadata.IncludeSnapshots = []string{"x"}
								}
								bc.Metadata.IncludeAllSnapshots = snaps == 2
								if kt == kemtypes.TypeEvent {
									bc.WatchEvent = kemtypes.WatchEventAdded
								}
								if nobj == 1 {
									o := kemtypes.ObjectAndFilterResult{Object: obj}
									o.Metadata.JqFilter = jq
									if jq != "" {
										o.FilterResult = map[string]interface{}{"a": "1"}
									}
									if remove {
										o.RemoveFullObject()
									}
									bc.Objects = []kemtypes.ObjectAndFilterResult{o}
								}
								m := bc.MapV1()
								want := []string{"binding"}
								snap := snaps != 0
								switch {
								case bt == htypes.OnStartup:
									snap = false
								case bt == htypes.KubernetesValidating || bt == htypes.KubernetesMutating:
									want = append(want, "type", "review")
								case bt == htypes.KubernetesConversion:
									want = append(want, "type", "review", "fromVersion", "toVersion")
								case group != "":
									want = append(want, "type", "groupName")
								case bt == htypes.Schedule:
									want = append(want, "type")
								case bt == htypes.OnKubernetesEvent && kt == kemtypes.TypeSynchronization:
									want = append(want, "type", "objects")
								case bt == htypes.OnKubernetesEvent && kt == kemtypes.TypeEvent:
									want = append(want, "type", "watchEvent")
									if nobj == 0 {
										want = append(want, "object")
										if jq != "" {
											want = append(want, "filterResult")
										}
									} else {
										if !remove {
											want = append(want, "object")
										}
										if jq != "" {
											want = append(want, "filterResult")
										}
									}
								}
								if snap {
									want = append(want, "snapshots")
								}
								sort.Strings(want)
								if keys(m) != strings.Join(want, ",") {
									report("bctx-keys-"+string(bt), "hook/binding_context.(BindingContext).MapV1", fmt.Sprintf("type=%s group=%q kubeType=%q objects=%d jq=%q removeObject=%v snapshots=%d: keys %s, documented %s", bt, group, kt, nobj, jq, remove, snaps, keys(m), strings.Join(want, ",")))
								}
								if bt == htypes.OnKubernetesEvent && group == "" && kt == kemtypes.TypeEvent && nobj == 1 && jq != "" {
									if fmt.Sprint(m["filterResult"]) != "map[a:1]" {
										report("bctx-filterresult-value", "kube_events_manager/types.(ObjectAndFilterResult).Map", fmt.Sprintf("filterResult stored as map[a:1], rendered as %v", m["filterResult"]))
									}
								}
							}
						}
					}
				}
			}
		}
	}
	fmt.Printf("CONF-STATS evaluated=%d scope=MapV1 over 6 binding types x group x snapshot flags x kube event type x 0/1 objects x jqFilter x removeObject\n", evaluated)
}
