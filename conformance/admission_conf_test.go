package shell_operator

// Bounded replay of the admission chain: AdmissionReview over HTTP -> webhook handler -> operator
// event handler -> task handler -> real hook process -> response file -> AdmissionReview answer
// (injected by /verif with `go test -overlay`; not part of the repository).

import (
	"bytes"
	"context"
	"crypto/ecdsa"
	"crypto/elliptic"
	"crypto/rand"
	"crypto/x509"
	"crypto/x509/pkix"
	"encoding/json"
	"encoding/pem"
	"fmt"
	"math/big"
	"net/http"
	"net/http/httptest"
	"os"
	"path/filepath"
	"strings"
	"testing"
	"time"

	"github.com/deckhouse/deckhouse/pkg/log"
	v1 "k8s.io/api/admission/v1"

	"github.com/flant/kube-client/fake"
	"github.com/flant/shell-operator/pkg/app"
	metricstorage "github.com/flant/shell-operator/pkg/metric_storage"
)

const vcAdmissionHook = `#!/usr/bin/env bash
if [[ $1 == "--config" ]] ; then
cat <<CONFIG
configVersion: v1
kubernetesValidating:
- name: policy.example.com
  rules:
  - operations: ["CREATE"]
    apiGroups: ["apps"]
    apiVersions: ["v1"]
    resources: ["deployments"]
kubernetesMutating:
- name: mutate.example.com
  rules:
  - operations: ["CREATE"]
    apiGroups: ["apps"]
    apiVersions: ["v1"]
    resources: ["deployments"]
CONFIG
exit 0
fi
base="$(dirname $0)/.."
mode=$(cat "$base/mode")
echo "$(jq -r '.[0].binding' $BINDING_CONTEXT_PATH) $(jq -r '.[0].type' $BINDING_CONTEXT_PATH) $(jq -r '.[0].review.request.uid' $BINDING_CONTEXT_PATH)" >> "$base/calls.log"
case "$mode" in
  allow)            echo '{"allowed":true}' > $VALIDATING_RESPONSE_PATH ;;
  allow-warn)       echo '{"allowed":true,"warnings":["w1","w2"]}' > $VALIDATING_RESPONSE_PATH ;;
  deny)             echo '{"allowed":false,"message":"not today"}' > $VALIDATING_RESPONSE_PATH ;;
  allow-then-fail)  echo '{"allowed":true}' > $VALIDATING_RESPONSE_PATH ; exit 1 ;;
  fail)             exit 3 ;;
  empty)            : ;;
  malformed)        echo '{"allowed":tr' > $VALIDATING_RESPONSE_PATH ;;
  wrong-type)       echo '{"allowed":"yes"}' > $VALIDATING_RESPONSE_PATH ;;
  no-verdict)       echo '{"message":"hello"}' > $VALIDATING_RESPONSE_PATH ;;
  allow-bad-metrics) echo '{"allowed":true}' > $VALIDATING_RESPONSE_PATH ; echo 'garbage' > $METRICS_PATH ;;
  patch)            echo '{"allowed":true,"patch":"W3sib3AiOiJhZGQifV0="}' > $VALIDATING_RESPONSE_PATH ;;
esac
exit 0
`

func vcWriteCerts(t *testing.T, dir string) (cert, key string) {
	priv, err := ecdsa.GenerateKey(elliptic.P256(), rand.Reader)
	if err != nil {
		t.Fatal(err)
	}
	tmpl := &x509.Certificate{SerialNumber: big.NewInt(1), Subject: pkix.Name{CommonName: "vc"}, NotBefore: time.Now().Add(-time.Hour), NotAfter: time.Now().Add(time.Hour),
		KeyUsage: x509.KeyUsageDigitalSignature | x509.KeyUsageCertSign, IsCA: true, BasicConstraintsValid: true}
	der, err := x509.CreateCertificate(rand.Reader, tmpl, tmpl, &priv.PublicKey, priv)
	if err != nil {
		t.Fatal(err)
	}
	kb, _ := x509.MarshalECPrivateKey(priv)
	cert, key = filepath.Join(dir, "tls.crt"), filepath.Join(dir, "tls.key")
	os.WriteFile(cert, pem.EncodeToMemory(&pem.Block{Type: "CERTIFICATE", Bytes: der}), 0o644)
	os.WriteFile(key, pem.EncodeToMemory(&pem.Block{Type: "EC PRIVATE KEY", Bytes: kb}), 0o600)
	return cert, key
}

func TestVerifConfAdmissionChain(t *testing.T) {
	evaluated := 0
	report := func(c, fn, detail string) {
		fmt.Printf("CONF-FAIL case=%s fn=%s detail=%s\n", c, fn, detail)
	}
	base := t.TempDir()
	hooksDir := filepath.Join(base, "hooks")
	os.MkdirAll(hooksDir, 0o755)
	os.WriteFile(filepath.Join(hooksDir, "adm.sh"), []byte(vcAdmissionHook), 0o755)
	os.WriteFile(filepath.Join(base, "mode"), []byte("allow"), 0o644)
	cert, key := vcWriteCerts(t, base)
	saved := *app.ValidatingWebhookSettings
	defer func() { *app.ValidatingWebhookSettings = saved }()
	app.ValidatingWebhookSettings.ServerCertPath = cert
	app.ValidatingWebhookSettings.ServerKeyPath = key
	app.ValidatingWebhookSettings.CAPath = cert
	app.ValidatingWebhookSettings.ListenAddr = "127.0.0.1"
	app.ValidatingWebhookSettings.ListenPort = "0"

	op := NewShellOperator(context.Background(), WithLogger(log.NewNop()))
	op.KubeClient = fake.NewFakeCluster(fake.ClusterVersionV121).Client
	op.MetricStorage = metricstorage.NewMetricStorage(context.Background(), "p_", true, log.NewNop())
	op.HookMetricStorage = metricstorage.NewMetricStorage(context.Background(), "p_", true, log.NewNop())
	op.SetupEventManagers()
	op.setupHookManagers(hooksDir, t.TempDir())
	if err := op.HookManager.Init(); err != nil {
		t.Fatalf("hook manager init: %v", err)
	}
	if err := op.initValidatingWebhookManager(); err != nil {
		t.Fatalf("init validating webhook manager: %v", err)
	}
	router := op.AdmissionWebhookManager.Handler.Router

	post := func(path, uid string) (*v1.AdmissionReview, int) {
		review := v1.AdmissionReview{Request: &v1.AdmissionRequest{UID: "placeholder"}}
		review.Request.UID = "placeholder"
		body, _ := json.Marshal(review)
		body = bytes.Replace(body, []byte("placeholder"), []byte(uid), 1)
		req := httptest.NewRequest(http.MethodPost, path, bytes.NewReader(body))
		req.Header.Set("Content-Type", "application/json")
		rec := httptest.NewRecorder()
		router.ServeHTTP(rec, req)
		var out v1.AdmissionReview
		if rec.Code != http.StatusOK {
			return nil, rec.Code
		}
		if err := json.Unmarshal(rec.Body.Bytes(), &out); err != nil {
			return nil, -1
		}
		return &out, rec.Code
	}
	calls := func() []string {
		b, _ := os.ReadFile(filepath.Join(base, "calls.log"))
		os.Remove(filepath.Join(base, "calls.log"))
		s := strings.TrimSpace(string(b))
		if s == "" {
			return nil
		}
		return strings.Split(s, "\n")
	}
	const fnHTTP = "webhook/admission.(*WebhookHandler).handleReviewRequest"
	const fnOp = "shell-operator.(*ShellOperator).initValidatingWebhookManager$1"

	type outcome struct {
		mode    string
		allowed bool
	}
	n := 0
	for _, oc := range []outcome{{"allow", true}, {"allow-warn", true}, {"deny", false}, {"allow-then-fail", false}, {"fail", false}, {"empty", false},
		{"malformed", false}, {"wrong-type", false}, {"no-verdict", false}, {"allow-bad-metrics", false}, {"patch", true}} {
		for _, path := range []string{"/hooks/policy-example-com", "/hooks/mutate-example-com"} {
			evaluated++
			n++
			uid := fmt.Sprintf("uid-%d", n)
			os.WriteFile(filepath.Join(base, "mode"), []byte(oc.mode), 0o644)
			out, code := post(path, uid)
			got := calls()
			wantBinding, wantType := "policy.example.com", "Validating"
			if strings.Contains(path, "mutate") {
				wantBinding, wantType = "mutate.example.com", "Mutating"
			}
			if len(got) != 1 || got[0] != wantBinding+" "+wantType+" "+uid {
				report("admission-chain-routing", fnOp, fmt.Sprintf("mode %s path %s: hook invocations %v, want one for binding %s type %s with uid %s", oc.mode, path, got, wantBinding, wantType, uid))
			}
			if out == nil || out.Response == nil {
				// no answer at all is a denial for the API server only with failurePolicy Fail; the
				// property wants an explicit denial
				report("admission-chain-no-answer", fnHTTP, fmt.Sprintf("mode %s path %s: HTTP status %d without an AdmissionReview answer", oc.mode, path, code))
				continue
			}
			r := out.Response
			if string(r.UID) != uid {
				report("admission-chain-uid", fnHTTP, fmt.Sprintf("mode %s path %s: answer uid %q, request uid %q", oc.mode, path, r.UID, uid))
			}
			if r.Allowed != oc.allowed {
				c := "admission-chain-verdict"
				if r.Allowed {
					c = "admission-chain-fail-open"
				}
				report(c, fnOp, fmt.Sprintf("mode %s path %s: allowed=%v, want %v", oc.mode, path, r.Allowed, oc.allowed))
			}
			switch oc.mode {
			case "deny":
				if r.Result == nil || r.Result.Message != "not today" {
					report("admission-chain-message", fnHTTP, fmt.Sprintf("path %s: denial status %+v, want message 'not today'", path, r.Result))
				}
			case "allow-warn":
				if fmt.Sprint(r.Warnings) != "[w1 w2]" {
					report("admission-chain-warnings", fnHTTP, fmt.Sprintf("path %s: warnings %v", path, r.Warnings))
				}
			case "patch":
				if r.PatchType == nil || *r.PatchType != v1.PatchTypeJSONPatch || string(r.Patch) != `[{"op":"add"}]` {
					report("admission-chain-patch", fnHTTP, fmt.Sprintf("path %s: patch %q type %v", path, r.Patch, r.PatchType))
				}
			}
			if oc.mode != "patch" && r.PatchType != nil {
				report("admission-chain-patch-type-without-patch", fnHTTP, fmt.Sprintf("mode %s path %s: patchType %v without a patch", oc.mode, path, *r.PatchType))
			}
		}
	}
	// unknown paths: denied, no hook process
	os.WriteFile(filepath.Join(base, "mode"), []byte("allow"), 0o644)
	for _, path := range []string{"/hooks/unknown-example-com", "/other/policy-example-com", "/hooks", "/"} {
		evaluated++
		out, code := post(path, "u-x")
		got := calls()
		if len(got) != 0 {
			report("admission-chain-unknown-path-ran-hook", fnOp, fmt.Sprintf("path %s: hook invocations %v", path, got))
		}
		if out == nil || out.Response == nil {
			report("admission-chain-no-answer", fnHTTP, fmt.Sprintf("unknown path %s: HTTP status %d without an AdmissionReview answer", path, code))
			continue
		}
		if out.Response.Allowed {
			report("admission-chain-fail-open", fnOp, fmt.Sprintf("unknown path %s: allowed", path))
		}
		if string(out.Response.UID) != "u-x" {
			report("admission-chain-uid", fnHTTP, fmt.Sprintf("unknown path %s: answer uid %q", path, out.Response.UID))
		}
	}
	fmt.Printf("CONF-STATS evaluated=%d scope=AdmissionReview over the real router, operator handler, task handler and hook process: 11 hook outcomes (exit code x response file) x validating/mutating path, 4 unknown paths\n", evaluated)
}
