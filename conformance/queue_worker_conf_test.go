package queue

// Bounded conformance of the worker's result application (Start) against an ordinary list
// (injected by /verif with `go test -overlay`; not part of the repository).
//
// One real worker goroutine handles the head of a real queue once; the handler answers with every
// combination of status x number of head / after / tail tasks x storage layout of the three result
// slices (separate arrays; windows of ONE array with spare capacity, in two orders) x what the
// handler did to the queue meanwhile (nothing; put a task before the handled one). The queue is read
// in AfterHandle, i.e. after the result has been applied, and compared with the list semantics of
// the property: head tasks first, in order; after tasks right behind the handled task, in order; tail
// tasks last, in order; the handled task removed exactly once on Success and kept in place otherwise.

import (
	"context"
	"fmt"
	"os"
	"strings"
	"testing"
	"time"

	"github.com/flant/shell-operator/pkg/task"
)

type vcwTask struct {
	task.BaseTask
	name string
}

func vcwNew(id, name string) *vcwTask {
	t := &vcwTask{name: name}
	t.Id = id
	return t
}

func vcwNames(ts []task.Task) []string {
	var out []string
	for _, t := range ts {
		if t == nil {
			out = append(out, "<nil>")
		} else {
			out = append(out, t.(*vcwTask).name)
		}
	}
	return out
}

func TestVerifConfQueueWorker(t *testing.T) {
	os.Setenv("QUEUE_ACTIONS_METRICS", "no")
	evaluated := 0
	fails := map[string]bool{}
	report := func(c, detail string) {
		if !fails[c] {
			fails[c] = true
			fmt.Printf("CONF-FAIL case=%s fn=task/queue.(*TaskQueue).Start$1$1 detail=%s\n", c, detail)
		}
	}
	statuses := []TaskStatus{Success, Keep, Fail, Repeat}
	layouts := []string{"separate", "one-array-head-after-tail", "one-array-tail-after-head", "separate-spare-capacity"}
	during := []string{"none", "add-first"}
	for n0 := 1; n0 <= 3; n0++ {
		for _, st := range statuses {
			for nH := 0; nH <= 2; nH++ {
				for nA := 0; nA <= 2; nA++ {
					for nT := 0; nT <= 2; nT++ {
						for _, lay := range layouts {
							for _, dur := range during {
								evaluated++
								q := NewTasksQueue()
								ctx, cancel := context.WithCancel(context.Background())
								q.WithContext(ctx)
								var ref []string
								for i := 0; i < n0; i++ {
									name := fmt.Sprintf("t%d", i)
									id := name
									if i == 2 {
										id = "t0" // a later task with the id of the handled one
									}
									q.items = append(q.items, vcwNew(id, name))
									ref = append(ref, name)
								}
								mk := func(p string, n int) []task.Task {
									var out []task.Task
									for i := 0; i < n; i++ {
										out = append(out, vcwNew(fmt.Sprintf("%s%d", p, i), fmt.Sprintf("%s%d", p, i)))
									}
									return out
								}
								hs, as, tsk := mk("h", nH), mk("a", nA), mk("x", nT)
								var H, A, T []task.Task
								switch lay {
								case "separate":
									H = append(make([]task.Task, 0, len(hs)), hs...)
									A = append(make([]task.Task, 0, len(as)), as...)
									T = append(make([]task.Task, 0, len(tsk)), tsk...)
								case "separate-spare-capacity":
									H = append(make([]task.Task, 0, len(hs)+4), hs...)
									A = append(make([]task.Task, 0, len(as)+4), as...)
									T = append(make([]task.Task, 0, len(tsk)+4), tsk...)
								case "one-array-head-after-tail":
									all := make([]task.Task, 0, nH+nA+nT+4)
									all = append(all, hs...)
									all = append(all, as...)
									all = append(all, tsk...)
									H, A, T = all[:nH], all[nH:nH+nA], all[nH+nA:]
								case "one-array-tail-after-head":
									all := make([]task.Task, 0, nH+nA+nT+4)
									all = append(all, tsk...)
									all = append(all, as...)
									all = append(all, hs...)
									T, A, H = all[:nT], all[nT:nT+nA], all[nT+nA:]
								}
								// reference
								handled := "t0"
								cur := append([]string{}, ref...)
								if dur == "add-first" {
									cur = append([]string{"early"}, cur...)
								}
								want := cur
								if st == Success || st == Keep {
									p := -1
									for i, n := range cur {
										if n == handled {
											p = i
											break
										}
									}
									var w []string
									w = append(w, vcwNames(hs)...)
									w = append(w, cur[:p]...)
									if st == Keep {
										w = append(w, handled)
									}
									w = append(w, vcwNames(as)...)
									w = append(w, cur[p+1:]...)
									w = append(w, vcwNames(tsk)...)
									want = w
								}
								done := make(chan []string, 1)
								calls := 0
								q.WithHandler(func(tk task.Task) TaskResult {
									calls++
									if dur == "add-first" {
										q.AddFirst(vcwNew("early", "early"))
									}
									return TaskResult{Status: st, HeadTasks: H, AfterTasks: A, TailTasks: T, AfterHandle: func() {
										var got []string
										q.withRLock(func() { got = vcwNames(q.items) })
										n := q.Length()
										if n != len(got) {
											got = append(got, fmt.Sprintf("<Length()=%d>", n))
										}
										cancel()
										done <- got
									}}
								})
								q.Start()
								var got []string
								select {
								case got = <-done:
								case <-time.After(5 * time.Second):
									got = []string{"<worker did not finish>"}
									cancel()
								}
								g, w := strings.Join(got, ","), strings.Join(want, ",")
								if g != w {
									c := "worker-result-" + string(st)
									if lay != "separate" {
										c += "-shared-or-spare-storage"
									}
									report(c, fmt.Sprintf("queue [%s], handler result %s head=%v after=%v tail=%v (slices: %s; handler meanwhile: %s): got [%s] want [%s]",
										strings.Join(ref, ","), st, vcwNames(hs), vcwNames(as), vcwNames(tsk), lay, dur, g, w))
								}
								// the handler's own slices must still hold what it returned (nothing written through them)
								if strings.Join(vcwNames(H), ",") != strings.Join(vcwNames(hs), ",") || strings.Join(vcwNames(A), ",") != strings.Join(vcwNames(as), ",") || strings.Join(vcwNames(T), ",") != strings.Join(vcwNames(tsk), ",") {
									report("worker-result-writes-into-handler-slices", fmt.Sprintf("status %s layout %s: head %v (was %v) after %v (was %v) tail %v (was %v)", st, lay, vcwNames(H), vcwNames(hs), vcwNames(A), vcwNames(as), vcwNames(T), vcwNames(tsk)))
								}
							}
						}
					}
				}
			}
		}
	}
	fmt.Printf("CONF-STATS evaluated=%d scope=one handled head of queues of 1-3 tasks (third task repeats the handled id) x status {Success,Keep,Fail,Repeat} x 0-2 head / after / tail tasks x 4 storage layouts of the result slices (separate exact, separate with spare capacity, windows of one array in two orders) x handler puts a task before the handled one or not\n", evaluated)
}
