#!/bin/bash
# dev.sh <PROP> [extra govc args]: run one property's check against the development worktree /var/tmp/dev
# (contract work while /repo is busy with seed checks); writes no evidence, replays go to /var/tmp/dev-replays.
GOTC=/root/go/pkg/mod/golang.org/toolchain@v0.0.1-go1.23.8.linux-amd64/bin
export PATH="$GOTC:$PATH" GOTOOLCHAIN=local GOFLAGS=-mod=mod GOPROXY=off; unset GOSUMDB
p=$1; shift
/verif/bin/govc check -repo ${DEVREPO:-/var/tmp/dev} -verif /verif -property $p -tier quick -no-evidence -out /var/tmp/dev-out-$p -replaydir /var/tmp/dev-replays "$@"
rc=$?; rm -rf /var/tmp/dev-out-$p; exit $rc
