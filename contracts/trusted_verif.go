//go:build verif

package contracts

// Assumed contracts on dependencies (external modules / standard library). Every entry is an
// ASSUMPTION: it is copied into the evidence of each property that uses it and is never verified.

//@ package github.com/hashicorp/go-multierror

// Append returns a non-nil *Error; the callers in this repository always pass one non-nil error.
//@ trusted func Append
//@   requires len(errs) > 0 && errs[0] != nil
//@   modifies nothing
//@   ensures result != nil

// ErrorOrNil: nil for a nil receiver; a non-nil *Error built by Append (at least one error) is returned as is.
//@ trusted func (*Error).ErrorOrNil
//@   modifies nothing
//@   ensures (result == nil) == (e == nil)
