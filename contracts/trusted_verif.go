//go:build verif

package contracts

// Assumed contracts on dependencies (external modules / standard library). Every entry is an
// ASSUMPTION: it is copied into the evidence of each property that uses it and is never verified.

//@ package github.com/hashicorp/go-multierror

// Append returns a non-nil *Error holding at least the appended error; the callers in this
// repository always pass one non-nil error. (Whether the result is the first argument updated in
// place or a new object is left open.)
//@ trusted func Append
//@   requires len(errs) > 0 && errs[0] != nil
//@   modifies nothing
//@   ensures result != nil && len(result.Errors) > 0

// ErrorOrNil: nil for a nil receiver and for an *Error without errors (e.g. a fresh &Error{});
// otherwise the receiver itself.
//@ trusted func (*Error).ErrorOrNil
//@   modifies nothing
//@   ensures (result == nil) == (e == nil || len(e.Errors) == 0)

//@ package gopkg.in/robfig/cron.v2

// Ghost view of the cron library: registered[c] = number of live registrations of crontab c;
// specOf[id] = the crontab an entry id was issued for. Entry ids are never reused.
//@ ghost registered map[string]int
//@ ghost specOf map[int]string

//@ trusted func (*Cron).AddFunc
//@   modifies registered, specOf
//@   ensures registered[spec] == old(registered[spec]) + 1
//@   ensures forall(c, string, c != spec ==> registered[c] == old(registered[c]))
//@   ensures old(specOf[result0]) == "" && specOf[result0] == spec
//@   ensures forall(i, int, i != result0 ==> specOf[i] == old(specOf[i]))

//@ trusted func (*Cron).Remove
//@   modifies registered
//@   ensures registered[specOf[id]] == old(registered[specOf[id]]) - 1
//@   ensures forall(c, string, c != specOf[id] ==> registered[c] == old(registered[c]))

//@ package sort

// sort.Strings sorts in place in increasing order (the permutation part is not stated).
//@ trusted func Strings
//@   modifies elems(x)
//@   ensures forall(i, 0, len(x)-1, !(x[i+1] < x[i]))

//@ package math
// Pow(x, y) >= 1 for x >= 1 and y >= 0 (floating point treated as real arithmetic).
//@ trusted func Pow
//@   modifies nothing
//@   ensures x >= 1 && y >= 0 ==> result >= 1

//@ package math/rand/v2
//@ trusted func Int64N
//@   modifies nothing
//@   ensures 0 <= result && result < n

//@ package time
//@ trusted func (Duration).Truncate
//@   modifies nothing
//@   ensures m > 0 && d >= 0 ==> result == d - d % m
//@ trusted func (Duration).Nanoseconds
//@   modifies nothing
//@   ensures result == d
//@ trusted func (Duration).Seconds
//@   modifies nothing

//@ package golang.org/x/time/rate

// Ghost view of the token-bucket limiter: the limiter most recently waited on and what Wait
// returned. Assumed (never verified): the library's guarantee that at most burst + T*limit
// calls of Wait on one limiter return nil within any window of length T.
//@ ghost lastWaitLimiter *Limiter
//@ ghost lastLimiterErr error
//@ trusted func (*Limiter).Wait
//@   modifies lastWaitLimiter, lastLimiterErr
//@   ghostset lastWaitLimiter := lim
//@   ghostset lastLimiterErr := result

//@ package encoding/json

// Ghost view of what is written to an HTTP response: the value most recently handed to an
// Encoder and the number of Encode calls. Assumed: Encode serialises exactly that value.
//@ ghost nEncoded int
//@ ghost lastEncoded interface{}
//@ trusted func (*Encoder).Encode
//@   modifies nEncoded, lastEncoded
//@   ghostset nEncoded := nEncoded + 1
//@   ghostset lastEncoded := v

// Ghost log of a stream decoder: the targets of the Decode calls that returned no error, in call
// order, and the latest result. What the decoder makes of the bytes is assumed.
//@ ghost nDecoded int
//@ ghost decodedInto map[int]interface{}
//@ ghost lastDecErr error
//@ trusted func (*Decoder).Decode
//@   opt havoc=args
//@   modifies nDecoded, decodedInto, lastDecErr
//@   ghostset lastDecErr := result
//@   ensures result == nil ==> nDecoded == old(nDecoded) + 1 && decodedInto[old(nDecoded)] == v
//@   ensures result != nil ==> nDecoded == old(nDecoded)
//@   ensures forall(k, 0, old(nDecoded), decodedInto[k] == old(decodedInto[k]))

//@ package gopkg.in/yaml.v3
//@ ghost nDecoded int
//@ ghost decodedInto map[int]interface{}
//@ ghost lastDecErr error
//@ trusted func (*Decoder).Decode
//@   opt havoc=args
//@   modifies nDecoded, decodedInto, lastDecErr
//@   ghostset lastDecErr := result
//@   ensures result == nil ==> nDecoded == old(nDecoded) + 1 && decodedInto[old(nDecoded)] == v
//@   ensures result != nil ==> nDecoded == old(nDecoded)
//@   ensures forall(k, 0, old(nDecoded), decodedInto[k] == old(decodedInto[k]))
