#!/bin/bash
# mkseedwt.sh <batch> <PROP>...   scratch worktrees of /repo for seeding sub-agents: /tmp/s<batch>-<PROP>,
# with the contract files removed (committed on the detached head so that `git diff HEAD` is the agent's change only)
# and /tmp/s<batch>-<PROP>.prompt holding the property text + the titles of changes already kept.
set -e
b=$1; shift
for p in "$@"; do
  W=/tmp/s$b-$p
  git -C /repo worktree add -q --detach $W HEAD
  (cd $W && git rm -q $(git ls-files | grep zz_contracts_verif.go) && git -c user.name=x -c user.email=x@x commit -q -m "scratch: without verification files")
  python3 - $p > $W.prompt <<'PY'
import json,sys,os
pid=sys.argv[1]
for l in open('/verif/properties.jsonl'):
    p=json.loads(l)
    if p['id']==pid: break
tried=[d[len(pid)+1:] for d in sorted(os.listdir('/verif/seeded')) if d.startswith(pid+'-')]
print("PROPERTY %s: %s\n\nStatement: %s\n\nQuantified over: %s\n\nWhy the existing tests cannot settle it: %s\n\nAnchors (files / mechanisms): %s\n"%(pid,p['title'],p['statement'],p['quantifier']['text'],p['why_tests_cant'],json.dumps({'files':p['anchors']['files'],'mechanism':p['anchors']['mechanism']},indent=1)))
print("Changes of this kind already collected (short titles) - produce something DIFFERENT in location and mechanism:\n - "+"\n - ".join(tried))
PY
  echo $W
done
