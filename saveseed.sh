#!/bin/bash
# saveseed.sh <seed-id> <PROP> <out-dir> <needs_to_manifest> <detected_by>
set -e
id=$1; prop=$2; out=$3; needs=$4; det=$5
d=/verif/seeded/$id; mkdir -p $d
cp $out/patch.diff $d/patch.diff
cp $out/*_test.go $d/
[ -f $out/notes.txt ] && cp $out/notes.txt $d/notes.txt
python3 - "$id" "$prop" "$needs" "$det" > $d/meta.json <<'PY'
import json,sys
id,prop,needs,det=sys.argv[1:5]
print(json.dumps({"id":id,"property":prop,"needs_to_manifest":needs,
 "source":"independent sub-agent given only the property text and a scratch worktree without the contract files",
 "confirmed":"seedcheck.sh: builds, existing tests pass with the change, demonstration fails with the change and passes without it",
 "ran":"./seedcheck.sh (scratch worktree under /tmp, removed afterwards); ./check %s quick against /repo with the patch applied, then git checkout -- ."%prop,
 "detected_by":det},indent=1))
PY
echo saved $d
